/-
  C17 — every example of the document is sent, verbatim, in the examples phase.  Property theorems only.
-/
import SV.Proofs.C17

namespace SV.Props.C17
open SV SV.Model.C17 SV.Spec.C17 SV.Proofs.C17

/-! ### the round-robin of produce_combinations -/

/-- Round-robin index lemma: `next(islice(cycle(xs), idx, None))` is `xs[idx mod len xs]`. -/
theorem C17_round_robin_index {α : Type} (xs : List α) (hne : xs ≠ []) (idx : Nat) :
    cycleGet xs idx = xs[idx % xs.length]? :=
  cycleGet_mod xs hne idx

/-- …so the first `len xs` indices enumerate `xs` itself. -/
theorem C17_round_robin_prefix {α : Type} (xs : List α) (idx : Nat) (h : idx < xs.length) :
    cycleGet xs idx = some xs[idx] :=
  cycleGet_lt xs idx h

/-- **C17_combinations_cover.** For every list of extracted examples, each example appears unchanged (same
    container, same name / media type, same value) in at least one of the combinations that become test cases. -/
theorem C17_combinations_cover (exs : List Example) (e : Example) (he : e ∈ exs) :
    ∃ c ∈ produceCombinations exs, Carries c.params c.body e := by
  have hsp := Has_split exs e he
  unfold produceCombinations
  generalize split exs = sp at hsp
  obtain ⟨ps, bs⟩ := sp
  cases e with
  | param c n x =>
    have hP : HasP ps c n x := hsp
    have hne : ps.isEmpty = false := by
      obtain ⟨vars, h1, _⟩ := hP
      cases ps with
      | nil => simp [lookupC] at h1
      | cons _ _ => rfl
    obtain ⟨j, hj, hcar⟩ := paramCombos_carry ps c n x hP
    by_cases hb : bs.isEmpty = true
    · simp only [hb, hne, Bool.not_true, Bool.not_false, Bool.false_eq_true, if_false, if_true]
      exact ⟨⟨(paramCombos ps)[j], none⟩, List.mem_map.mpr ⟨_, List.getElem_mem hj, rfl⟩, hcar none⟩
    · simp only [hb, hne, Bool.not_false, if_true]
      refine ⟨⟨(cycleGet (paramCombos ps) j).getD [], cycleGet (bodyCombos bs) j⟩, ?_, ?_⟩
      · exact List.mem_map.mpr ⟨j, by simp; omega, rfl⟩
      · rw [cycleGet_lt _ j hj]
        exact hcar _
  | body x mt =>
    have hV : HasV bs mt x := hsp
    have hne : bs.isEmpty = false := by
      obtain ⟨vs, h1, _⟩ := hV
      cases bs with
      | nil => simp [lookupC] at h1
      | cons _ _ => rfl
    have hmem := bodyCombos_mem bs mt x hV
    obtain ⟨k, hk, hkx⟩ := List.getElem_of_mem hmem
    by_cases hp : ps.isEmpty = true
    · simp only [hp, hne, Bool.not_true, Bool.not_false, Bool.false_eq_true, if_false, if_true]
      exact ⟨⟨[], some (mt, x)⟩, List.mem_map.mpr ⟨_, hmem, rfl⟩, rfl⟩
    · simp only [hp, hne, Bool.not_false, if_true]
      refine ⟨⟨(cycleGet (paramCombos ps) k).getD [], cycleGet (bodyCombos bs) k⟩, ?_, ?_⟩
      · exact List.mem_map.mpr ⟨k, by simp; omega, rfl⟩
      · show cycleGet (bodyCombos bs) k = some (mt, x)
        rw [cycleGet_lt _ k hk, hkx]


/-- An operation without examples yields no test case (and `run_test` reports it as skipped);
    an operation with at least one extracted example yields at least one. -/
theorem C17_none_is_skip (vE vH : Variant) :
    produceCombinations [] = [] ∧ runStatus (addExamples vE vH (.ok [])) = .skip := by
  constructor <;> rfl

theorem C17_some_is_not_skip (exs : List Example) (h : exs ≠ []) : produceCombinations exs ≠ [] := by
  cases exs with
  | nil => exact absurd rfl h
  | cons e rest =>
    obtain ⟨c, hc, _⟩ := C17_combinations_cover (e :: rest) e (by simp)
    intro hnil
    rw [hnil] at hc
    simp at hc

/-! ### extraction completeness, placement by placement (`extract_top_level`) -/

/-- parameter-level / media-type-level `example` (and `x-example` in OpenAPI 2.0) -/
theorem C17_extract_declared_example (vRef : Variant) (srcs : List Source) (s : Source) (hs : s ∈ srcs) (f : String)
    (hf : f ∈ s.exampleFields) (v : Json) (h : s.definition.get? f = some v) : s.mk' v ∈ extractTopLevel vRef srcs := by
  apply topValues_extracted vRef srcs s hs
  have hd : s.definition ∈ definitionsOf s := by
    unfold definitionsOf
    split <;> simp
  simp only [topValues, List.mem_append, List.mem_flatMap, List.mem_filterMap]
  exact Or.inl (Or.inl (Or.inl ⟨s.definition, hd, f, hf, h⟩))

/-- parameter-level / media-type-level `examples` (`x-examples`): every entry with a `value` -/
theorem C17_extract_declared_examples (vRef : Variant) (srcs : List Source) (s : Source) (hs : s ∈ srcs) (exs : Json)
    (h : s.definition.get? s.examplesField = some exs) (k : String) (ex : Json) (hk : (k, ex) ∈ objItems exs)
    (v : Json) (hv : ex.get? "value" = some v) : s.mk' v ∈ extractTopLevel vRef srcs := by
  apply topValues_extracted vRef srcs s hs
  simp only [topValues, h, List.mem_append]
  refine Or.inl (Or.inl (Or.inr ?_))
  simp only [extractInner, List.mem_flatMap]
  exact ⟨(k, ex), hk, by simp [innerOf, hv]⟩

/-- a referenced example (`$ref` in the document) whose target is a bare value — not an Example Object with `value`
    or `externalValue` — is used as it is (repaired `in` test) -/
theorem C17_extract_referenced_example (srcs : List Source) (s : Source) (hs : s ∈ srcs) (exs : Json)
    (h : s.definition.get? s.examplesField = some exs) (k : String) (ex : Json) (hk : (k, ex) ∈ objItems exs)
    (href : hasKey ((s.unresolved.get? k).getD .null) "$ref" = true)
    (hnv : hasKey ex "value" = false) (hne : hasKey ex "externalValue" = false) :
    s.mk' ex ∈ extractTopLevel .repaired srcs := by
  apply topValues_extracted .repaired srcs s hs
  simp only [topValues, h, List.mem_append]
  refine Or.inl (Or.inl (Or.inr ?_))
  simp only [extractInner, List.mem_flatMap]
  exact ⟨(k, ex), hk, by simp [innerOf, hasKeyV, href, hnv, hne]⟩

/-- on the snapshot the test is Python's `"value" not in example`, which for a bare string is a *substring* test and
    for a bare list an element test: what holds needs them to come out false -/
theorem C17_extract_referenced_example_partial (vRef : Variant) (srcs : List Source) (s : Source) (hs : s ∈ srcs)
    (exs : Json) (h : s.definition.get? s.examplesField = some exs) (k : String) (ex : Json)
    (hk : (k, ex) ∈ objItems exs) (href : hasKey ((s.unresolved.get? k).getD .null) "$ref" = true)
    (hnv : hasKeyV vRef ex "value" = false) (hne : hasKeyV vRef ex "externalValue" = false) :
    s.mk' ex ∈ extractTopLevel vRef srcs := by
  apply topValues_extracted vRef srcs s hs
  simp only [topValues, h, List.mem_append]
  refine Or.inl (Or.inl (Or.inr ?_))
  simp only [extractInner, List.mem_flatMap]
  exact ⟨(k, ex), hk, by simp [innerOf, href, hnv, hne]⟩

/-- the referenced bare string "a value here" is not an Example Object, has no key at all — and is dropped -/
theorem C17_extract_referenced_example_asFound_false : ¬ ReferencedBareExampleExtracted .asFound := by
  intro h
  have := h [refStringParam] refStringParam (by simp) _ rfl "a" (.str "a value here") (by simp [objItems]) rfl rfl rfl
  have hnil : extractTopLevel .asFound [refStringParam] = [] := by decide
  rw [hnil] at this
  simp at this

/-- schema-level `example`, on the schema itself or on any sub-schema `_expand_subschemas` yields -/
theorem C17_extract_schema_example (vRef : Variant) (srcs : List Source) (s : Source) (hs : s ∈ srcs) (sch branch : Json)
    (h : s.definition.get? "schema" = some sch) (hb : branch ∈ expandSubschemas sch) (f : String)
    (hf : f ∈ s.exampleFields) (v : Json) (hv : branch.get? f = some v) : s.mk' v ∈ extractTopLevel vRef srcs := by
  apply topValues_extracted vRef srcs s hs
  have hd : branch ∈ definitionsOf s := by
    simp only [definitionsOf, h, List.mem_cons]
    exact Or.inr hb
  simp only [topValues, List.mem_append, List.mem_flatMap, List.mem_filterMap]
  exact Or.inl (Or.inl (Or.inl ⟨branch, hd, f, hf, hv⟩))

/-- schema-level `examples` list, on the schema itself or on any sub-schema `_expand_subschemas` yields -/
theorem C17_extract_schema_examples (vRef : Variant) (srcs : List Source) (s : Source) (hs : s ∈ srcs) (sch branch : Json)
    (h : s.definition.get? "schema" = some sch) (hb : branch ∈ expandSubschemas sch) (vs : List Json)
    (hvs : branch.get? s.examplesField = some (.arr vs)) (v : Json) (hv : v ∈ vs) :
    s.mk' v ∈ extractTopLevel vRef srcs := by
  apply topValues_extracted vRef srcs s hs
  simp only [topValues, h, List.mem_append, List.mem_flatMap]
  exact Or.inl (Or.inr ⟨branch, hb, by simp [hvs, iterValues, hv]⟩)

/-- examples inside an `anyOf` / `oneOf` branch of the schema -/
theorem C17_extract_anyOf_oneOf_branch (vRef : Variant) (srcs : List Source) (s : Source) (hs : s ∈ srcs)
    (kvs : List (String × Json)) (h : s.definition.get? "schema" = some (.obj kvs)) (key : String)
    (hkey : key = "anyOf" ∨ key = "oneOf") (subs : List Json) (hsubs : Json.lookup key kvs = some (.arr subs))
    (branch : Json) (hb : branch ∈ subs) (v : Json)
    (hv : (∃ f ∈ s.exampleFields, branch.get? f = some v) ∨
          (∃ vs, branch.get? s.examplesField = some (.arr vs) ∧ v ∈ vs)) :
    s.mk' v ∈ extractTopLevel vRef srcs := by
  have hexp : branch ∈ expandSubschemas (.obj kvs) := by
    rcases hkey with rfl | rfl
    · exact expand_anyOf kvs subs branch hsubs hb
    · exact expand_oneOf kvs subs branch hsubs hb
  rcases hv with ⟨f, hf, hv⟩ | ⟨vs, hvs, hv⟩
  · exact C17_extract_schema_example vRef srcs s hs _ branch h hexp f hf v hv
  · exact C17_extract_schema_examples vRef srcs s hs _ branch h hexp vs hvs v hv

/-- examples inside `allOf` items (OpenAPI 3 field names): the first item's `example`, and every later item's
    `example` / `examples` (which the merge moves into the `examples` list of the merged sub-schema) -/
theorem C17_extract_allOf_items (vRef : Variant) (srcs : List Source) (s : Source) (hs : s ∈ srcs)
    (kvs first : List (String × Json)) (rest : List Json) (h : s.definition.get? "schema" = some (.obj kvs))
    (hall : Json.lookup "allOf" kvs = some (.arr (.obj first :: rest)))
    (hef : "example" ∈ s.exampleFields) (hesf : s.examplesField = "examples") (v : Json)
    (hv : Json.lookup "example" first = some v ∨ InExamples first v ∨
          ∃ b, Json.obj b ∈ rest ∧ Contributes b v) :
    s.mk' v ∈ extractTopLevel vRef srcs := by
  have hexp : Json.obj (rest.foldl mergeSub first) ∈ expandSubschemas (.obj kvs) :=
    expand_allOf kvs _ _ hall (by simp [mergeAllOf])
  rcases hv with hv | hv | ⟨b, hb, hv⟩
  · exact C17_extract_schema_example vRef srcs s hs _ _ h hexp "example" hef v
      (foldl_mergeSub_keeps_example rest first v hv)
  · obtain ⟨vs, h1, h2⟩ := foldl_mergeSub_keeps_examples rest first v hv
    exact C17_extract_schema_examples vRef srcs s hs _ _ h hexp vs (by rw [hesf]; exact h1) v h2
  · obtain ⟨vs, h1, h2⟩ := foldl_mergeSub_adds rest first b v hb hv
    exact C17_extract_schema_examples vRef srcs s hs _ _ h hexp vs (by rw [hesf]; exact h1) v h2

/-! ### examples on (nested) properties (`extract_from_schema`) -/

/-- **Property-level completeness.** Every example declared on a property — at any property / items nesting
    depth, each step through at most the one level of anyOf / oneOf / allOf the code expands — ends up, unchanged and
    at its own path, inside one of the values `extract_from_schema` yields (fuel ≥ path length). -/
theorem C17_extract_property_examples (gen : Json → Json) (ef esf : String) (schema : Json) (path : List Seg)
    (v : Json) (h : Declared ef esf schema path v) :
    ∀ fuel, path.length ≤ fuel → ∃ obj ∈ extractFromSchemaF gen ef esf fuel schema, At obj path v := by
  induction h with
  | «example» schema props name sub branch v hp hm hb hv =>
    intro fuel hf
    cases fuel with
    | zero => simp at hf
    | succ n =>
      simp only [extractFromSchemaF, hp]
      have hl := propLoop_mem (extractFromSchemaF gen ef esf n) ef esf (isRequired schema name) sub branch v hb
        (contrib_example _ ef esf branch v hv)
      obtain ⟨kvs, hk1, hk2⟩ := combineProps_mem gen _ name _ v
        (show (name, propLoop (extractFromSchemaF gen ef esf n) ef esf (isRequired schema name) sub) ∈
            (objItems props).map (fun ns : String × Json =>
              (ns.1, propLoop (extractFromSchemaF gen ef esf n) ef esf (isRequired schema ns.1) ns.2)) from
          List.mem_map.mpr ⟨(name, sub), hm, rfl⟩) hl.2 hl.1
      exact ⟨_, hk1, At.prop kvs name v [] v hk2 (At.here v)⟩
  | examples schema props name sub branch vs v hp hm hb hvs hv =>
    intro fuel hf
    cases fuel with
    | zero => simp at hf
    | succ n =>
      simp only [extractFromSchemaF, hp]
      have hl := propLoop_mem (extractFromSchemaF gen ef esf n) ef esf (isRequired schema name) sub branch v hb
        (contrib_examples _ ef esf branch vs v hvs hv)
      obtain ⟨kvs, hk1, hk2⟩ := combineProps_mem gen _ name _ v
        (show (name, propLoop (extractFromSchemaF gen ef esf n) ef esf (isRequired schema name) sub) ∈
            (objItems props).map (fun ns : String × Json =>
              (ns.1, propLoop (extractFromSchemaF gen ef esf n) ef esf (isRequired schema ns.1) ns.2)) from
          List.mem_map.mpr ⟨(name, sub), hm, rfl⟩) hl.2 hl.1
      exact ⟨_, hk1, At.prop kvs name v [] v hk2 (At.here v)⟩
  | nested schema props name sub branch path v hp hm hb hd ih =>
    intro fuel hf
    cases fuel with
    | zero => simp at hf
    | succ n =>
      obtain ⟨x, hx, hat⟩ := ih n (by simp at hf; omega)
      simp only [extractFromSchemaF, hp]
      have hnb : ∀ b, branch ≠ .bool b := by
        intro b e
        subst e
        exact Declared_not_bool ef esf b path v hd
      have hl := propLoop_mem (extractFromSchemaF gen ef esf n) ef esf (isRequired schema name) sub branch x hb
        (contrib_rec _ ef esf branch x hnb hx)
      obtain ⟨kvs, hk1, hk2⟩ := combineProps_mem gen _ name _ x
        (show (name, propLoop (extractFromSchemaF gen ef esf n) ef esf (isRequired schema name) sub) ∈
            (objItems props).map (fun ns : String × Json =>
              (ns.1, propLoop (extractFromSchemaF gen ef esf n) ef esf (isRequired schema ns.1) ns.2)) from
          List.mem_map.mpr ⟨(name, sub), hm, rfl⟩) hl.2 hl.1
      exact ⟨_, hk1, At.prop kvs name x path v hk2 hat⟩
  | items schema its path v hp hi hd ih =>
    intro fuel hf
    cases fuel with
    | zero => simp at hf
    | succ n =>
      obtain ⟨x, hx, hat⟩ := ih n (by simp at hf; omega)
      simp only [extractFromSchemaF, hp, hi]
      exact ⟨.arr [x], List.mem_map.mpr ⟨x, hx, rfl⟩, At.item x path v hat⟩


/-! ### user-configured headers / overrides (`{**parameters, **kwargs}`) -/

theorem C17_user_config_keeps_examples : UserConfigKeepsExamples .repaired := by
  intro combo user b c n v h hu
  unfold mergeKwargs
  induction user generalizing combo with
  | nil => exact h
  | cons kc rest ih =>
    simp only [List.foldl_cons]
    apply ih
    · obtain ⟨cont, h1, h2⟩ := h
      by_cases hk : kc.1 = c
      · refine ⟨objUpdate cont kc.2, ?_, ?_⟩
        · rw [hk, lookupC_setContainer_same, h1]; rfl
        · rw [lookupC_objUpdate_other n cont kc.2 (hu kc (by simp) hk)]; exact h2
      · exact ⟨cont, by rw [lookupC_setContainer_ne c kc.1 _ _ hk]; exact h1, h2⟩
    · intro kc' hkc'
      exact hu kc' (List.mem_cons_of_mem _ hkc')

/-- the pinned snapshot: `headers={"Authorization": …}` (every CLI run with `--header`) replaces the whole header
    container, so the header example `X-E: HE1` is no longer carried -/
theorem C17_user_config_keeps_examples_asFound_false : ¬ UserConfigKeepsExamples .asFound := by
  intro h
  have := h [("headers", [("X-E", .str "HE1")])] [("headers", [("Authorization", .str "t")])] none
    "headers" "X-E" (.str "HE1") ⟨[("X-E", .str "HE1")], by simp [lookupC], by simp [lookupC]⟩
    (by simp)
  obtain ⟨cont, h1, h2⟩ := this
  simp [mergeKwargs, setContainer, lookupC] at h1
  subst h1
  simp [lookupC] at h2

/-- the user's own values are in force in both variants (C14 side of the same merge) -/
theorem C17_user_values_win (variant : Variant) (combo : Containers) (c : String) (ucont : Container) (n : String)
    (v : Json) (hn : lookupC n ucont = some v) :
    ∃ cont, lookupC c (mergeKwargs variant combo [(c, ucont)]) = some cont ∧ (lookupC n cont).isSome = true := by
  cases variant with
  | asFound =>
    exact ⟨ucont, by simp [mergeKwargs, lookupC_setContainer_same], by simp [hn]⟩
  | repaired =>
    refine ⟨_, by simp only [mergeKwargs, List.foldl_cons, List.foldl_nil]; exact lookupC_setContainer_same _ _ _, ?_⟩
    exact lookupC_objUpdate_right n _ ucont (by simp [hn])

/-! ### fill-in of the parts without example (`get_parameters_value`) -/

/-- an explicit example value is never overwritten by the generated remainder (`new` is drawn from the schema of
    the location with the example's names excluded and `additionalProperties: false`, hence never contains them) -/
theorem C17_fill_keeps_examples (val : Container) (new : Option Container) (n : String) (v : Json)
    (h : lookupC n val = some v) (hdis : ∀ newc, new = some newc → ∀ kv ∈ newc, kv.1 ≠ n) :
    ∃ r, fillIn (some val) new = some r ∧ lookupC n r = some v := by
  cases val with
  | nil => simp [lookupC] at h
  | cons kv rest =>
    cases new with
    | none => exact ⟨kv :: rest, rfl, h⟩
    | some newc =>
      exact ⟨objUpdate (kv :: rest) newc, rfl, by rw [lookupC_objUpdate_other n _ newc (hdis newc rfl)]; exact h⟩

/-- **C17_required_filled.** Every required name is present in the final container, provided the generated
    remainder contains the required names that have no example (the contract of the generator for the remaining schema) -/
theorem C17_required_filled (val : Container) (hne : val ≠ []) (new : Option Container) (required : List String)
    (hreq : ∀ r ∈ required, (lookupC r val).isSome = true ∨
                            ∃ newc, new = some newc ∧ (lookupC r newc).isSome = true) :
    ∃ res, fillIn (some val) new = some res ∧ ∀ r ∈ required, (lookupC r res).isSome = true := by
  cases val with
  | nil => exact absurd rfl hne
  | cons kv rest =>
    cases new with
    | none =>
      refine ⟨kv :: rest, rfl, fun r hr => ?_⟩
      rcases hreq r hr with h | ⟨newc, h, _⟩
      · exact h
      · cases h
    | some newc =>
      refine ⟨objUpdate (kv :: rest) newc, rfl, fun r hr => ?_⟩
      rcases hreq r hr with h | ⟨newc', h, h'⟩
      · exact lookupC_objUpdate_left r _ newc h
      · cases h
        exact lookupC_objUpdate_right r _ newc h'

/-- a location without any example is generated as a whole -/
theorem C17_fill_notset (new : Option Container) : fillIn none new = new ∧ fillIn (some []) new = new := by
  constructor <;> rfl

/-! ### add_examples: whatever is not turned into a test is reported -/

theorem C17_dropped_is_reported (vHdr : Variant) : DroppedIsReported .repaired vHdr := by
  intro e
  cases e <;> rfl

/-- the pinned snapshot: `InvalidSchema` / `HypothesisRefResolutionError` empty the example list without a mark —
    the operation is reported as *skipped* ("no examples") -/
theorem C17_dropped_is_reported_asFound_false (vHdr : Variant) : ¬ DroppedIsReported .asFound vHdr := by
  intro h
  have := h .refResolution
  simp [addExamples, excMarks, runStatus] at this

theorem C17_asFound_silent_arms (vHdr : Variant) :
    runStatus (addExamples .asFound vHdr (.error .invalidSchema)) = .skip ∧
    runStatus (addExamples .asFound vHdr (.error .refResolution)) = .skip := by
  constructor <;> rfl

/-- an example with a header that cannot be sent over HTTP makes the operation end as an error (both variants) -/
theorem C17_unsendable_is_reported (vExc vHdr : Variant) (cases : List ECase) (c : ECase) (hc : c ∈ cases)
    (hbad : c.invalidHeaders ≠ []) : runStatus (addExamples vExc vHdr (.ok cases)) = .error := by
  have hm : Mark.invalidHeaders ∈ (addLoop vHdr cases).2 := by
    induction cases with
    | nil => simp at hc
    | cons x rest ih =>
      simp only [addLoop]
      rcases List.mem_cons.mp hc with h | h
      · subst h
        have : c.invalidHeaders.isEmpty = false := by
          cases hh : c.invalidHeaders with
          | nil => exact absurd hh hbad
          | cons _ _ => rfl
        simp only [this, Bool.false_eq_true, if_false]
        cases vHdr <;> simp
      · split
        · exact ih h
        · cases vHdr <;> simp [ih h]
  simp only [addExamples, runStatus, Bool.false_eq_true, if_false]
  have : (addLoop vHdr cases).2.isEmpty = false := by
    cases hh : (addLoop vHdr cases).2 with
    | nil => rw [hh] at hm; simp at hm
    | cons _ _ => rfl
  simp [this]

theorem C17_sendable_examples_survive : SendableExamplesSurvive .repaired := by
  intro cases c e hc hcar hok
  induction cases with
  | nil => simp at hc
  | cons x rest ih =>
    simp only [addLoop]
    rcases List.mem_cons.mp hc with h | h
    · subst h
      split
      · exact ⟨c, by simp, hcar⟩
      · exact ⟨_, List.mem_cons_self, Carries_dropHeaders c.invalidHeaders c.params c.body e hcar hok⟩
    · obtain ⟨c', hc', hcar'⟩ := ih h
      split
      · exact ⟨c', List.mem_cons_of_mem _ hc', hcar'⟩
      · exact ⟨c', List.mem_cons_of_mem _ hc', hcar'⟩

/-- the pinned snapshot skips the whole case: the query example `q = Q2`, combined by the round-robin with the
    unsendable header example, is sent by no examples-phase request -/
theorem C17_sendable_examples_survive_asFound_false : ¬ SendableExamplesSurvive .asFound := by
  intro h
  have := h
    [⟨[("headers", [("X-E", .str "ok")]), ("query", [("q", .str "Q1")])], none, []⟩,
     ⟨[("headers", [("X-E", .str "bad\nx")]), ("query", [("q", .str "Q2")])], none, ["X-E"]⟩]
    ⟨[("headers", [("X-E", .str "bad\nx")]), ("query", [("q", .str "Q2")])], none, ["X-E"]⟩
    (.param "query" "q" (.str "Q2")) (by simp)
    ⟨[("q", .str "Q2")], by simp [lookupC], by simp [lookupC]⟩ (by simp)
  obtain ⟨c', hc', cont, h1, h2⟩ := this
  simp [addLoop] at hc'
  subst hc'
  simp [lookupC] at h1
  subst h1
  simp [lookupC] at h2


/-! ### placements below the one combinator level the code expands: the full statements are false -/

theorem C17_extract_any_depth_full_false (vRef : Variant) : ¬ ExtractsAtAnyDepth vRef := by
  intro h
  have hb : Branch (.obj [("anyOf", .arr [.obj [("oneOf", .arr [.obj [("type", .str "string"), ("example", .str "DEEP")]])]])])
      (.obj [("type", .str "string"), ("example", .str "DEEP")]) :=
    Branch.anyOf [("anyOf", .arr [.obj [("oneOf", .arr [.obj [("type", .str "string"), ("example", .str "DEEP")]])]])]
      [.obj [("oneOf", .arr [.obj [("type", .str "string"), ("example", .str "DEEP")]])]]
      (.obj [("oneOf", .arr [.obj [("type", .str "string"), ("example", .str "DEEP")]])]) _ rfl (by simp)
      (Branch.oneOf [("oneOf", .arr [.obj [("type", .str "string"), ("example", .str "DEEP")]])]
        [.obj [("type", .str "string"), ("example", .str "DEEP")]]
        (.obj [("type", .str "string"), ("example", .str "DEEP")]) _ rfl (by simp) (Branch.self _))
  have := h deepParam _ _ "example" (.str "DEEP") rfl hb (by simp [deepParam]) rfl
  have hnil : extractTopLevel vRef [deepParam] = [] := by cases vRef <;> rfl
  rw [hnil] at this
  simp at this

/-- depth one is what is proved: `Branch` steps of length ≤ 1 are exactly `C17_extract_anyOf_oneOf_branch` -/
theorem C17_extract_depth_one_partial (vRef : Variant) (s : Source) (kvs : List (String × Json)) (subs : List Json) (branch : Json)
    (f : String) (v : Json) (h : s.definition.get? "schema" = some (.obj kvs))
    (hsubs : Json.lookup "anyOf" kvs = some (.arr subs) ∨ Json.lookup "oneOf" kvs = some (.arr subs))
    (hb : branch ∈ subs) (hf : f ∈ s.exampleFields) (hv : branch.get? f = some v) :
    s.mk' v ∈ extractTopLevel vRef [s] := by
  rcases hsubs with hs | hs
  · exact C17_extract_anyOf_oneOf_branch vRef [s] s (by simp) kvs h "anyOf" (Or.inl rfl) subs hs branch hb v
      (Or.inl ⟨f, hf, hv⟩)
  · exact C17_extract_anyOf_oneOf_branch vRef [s] s (by simp) kvs h "oneOf" (Or.inr rfl) subs hs branch hb v
      (Or.inl ⟨f, hf, hv⟩)

theorem C17_extract_under_body_combinator_full_false : ¬ ExtractsUnderBodyCombinator := by
  intro h
  have hb : Branch deepBodySchema (.obj [("type", .str "object"),
      ("properties", .obj [("b", .obj [("type", .str "string"), ("example", .str "AP")])])]) :=
    Branch.anyOf [("anyOf", .arr [.obj [("type", .str "object"),
        ("properties", .obj [("b", .obj [("type", .str "string"), ("example", .str "AP")])])]])]
      [.obj [("type", .str "object"), ("properties", .obj [("b", .obj [("type", .str "string"), ("example", .str "AP")])])]]
      (.obj [("type", .str "object"), ("properties", .obj [("b", .obj [("type", .str "string"), ("example", .str "AP")])])])
      _ rfl (by simp) (Branch.self _)
  have hd : Declared "example" "examples" (.obj [("type", .str "object"),
      ("properties", .obj [("b", .obj [("type", .str "string"), ("example", .str "AP")])])]) [.prop "b"] (.str "AP") :=
    Declared.example _ (.obj [("b", .obj [("type", .str "string"), ("example", .str "AP")])]) "b"
      (.obj [("type", .str "string"), ("example", .str "AP")]) (.obj [("type", .str "string"), ("example", .str "AP")])
      (.str "AP") rfl (by simp [objItems]) (expand_self _) rfl
  obtain ⟨fuel, obj, hobj, _⟩ := h (fun _ => .null) "example" "examples" deepBodySchema _ _ _ hb hd
  have hnil : extractFromSchemaF (fun _ => Json.null) "example" "examples" fuel deepBodySchema = [] := by
    cases fuel <;> rfl
  rw [hnil] at hobj
  simp at hobj

theorem C17_extract_allOf_items_swagger_full_false (vRef : Variant) : ¬ AllOfItemsExtracted vRef := by
  intro h
  have := h swaggerAllOfBody _ [("type", .str "object")] [.obj [("example", .obj [("s", .str "LATE")])]]
    (.obj [("s", .str "LATE")]) rfl rfl (by simp [swaggerAllOfBody])
    ⟨[("example", .obj [("s", .str "LATE")])], by simp, Or.inl (by simp)⟩
  have hnil : extractTopLevel vRef [swaggerAllOfBody] = [] := by cases vRef <;> rfl
  rw [hnil] at this
  simp at this

/-! ### non-vacuity: the hypotheses of the implications above are met by concrete documents -/

/-- three examples for one parameter, one for another, two bodies: all covered -/
example : ∃ c ∈ produceCombinations [.param "query" "q" (.str "Q0"), .param "query" "q" (.str "Q1"),
      .param "headers" "h" (.str "H"), .body (.str "B0") "application/json", .param "query" "q" (.str "Q2"),
      .body (.str "B1") "text/plain"], Carries c.params c.body (.param "query" "q" (.str "Q2")) :=
  C17_combinations_cover _ _ (by simp)

example : (produceCombinations [.param "query" "q" (.str "Q0"), .param "query" "q" (.str "Q1"),
      .param "headers" "h" (.str "H"), .body (.str "B0") "application/json"]).length = 2 := by rfl

example : cycleGet [1, 2, 3] 7 = some 2 := by decide

example (vRef : Variant) : exParam.mk' (.str "E0") ∈ extractTopLevel vRef [exParam] :=
  C17_extract_declared_example vRef [exParam] exParam (by simp) "example" (by simp [exParam]) _ rfl

example (vRef : Variant) : exParam.mk' (.str "E1") ∈ extractTopLevel vRef [exParam] :=
  C17_extract_declared_examples vRef [exParam] exParam (by simp) _ rfl "a" (.obj [("value", .str "E1")])
    (by simp [objItems]) _ rfl

example (vRef : Variant) : exParam.mk' (.str "E4") ∈ extractTopLevel vRef [exParam] :=
  C17_extract_anyOf_oneOf_branch vRef [exParam] exParam (by simp) _ rfl "oneOf" (Or.inr rfl) _ rfl
    (.obj [("example", .str "E4")]) (by simp) _ (Or.inl ⟨"example", by simp [exParam], rfl⟩)

example (vRef : Variant) : exParam.mk' (.str "E6") ∈ extractTopLevel vRef [exParam] :=
  C17_extract_allOf_items vRef [exParam] exParam (by simp) _ [("type", .str "string"), ("example", .str "E5")]
    [.obj [("example", .str "E6")]] rfl rfl (by simp [exParam]) rfl _
    (Or.inr (Or.inr ⟨[("example", .str "E6")], by simp, Or.inl (by simp)⟩))

example : (extractTopLevel .asFound [exParam]).length = 7 ∧ (extractTopLevel .repaired [exParam]).length = 7 := by
  constructor <;> rfl

example : ∃ obj ∈ extractFromSchemaF (fun _ => .null) "example" "examples" 3 nestedSchema,
    At obj [.item, .prop "a", .prop "b"] (.str "NB") := by
  apply C17_extract_property_examples _ _ _ _ _ _ ?_ 3 (by simp)
  refine Declared.items _ _ _ _ rfl rfl ?_
  refine Declared.nested _ _ "a" _ _ _ _ rfl (by simp [objItems]; rfl) (expand_self _) ?_
  exact Declared.example _ _ "b" _ (.obj [("type", .str "string"), ("example", .str "NB")]) _ rfl
    (by simp [objItems]; rfl) (expand_oneOf _ _ _ rfl (by simp)) rfl

example : Carries (mergeKwargs .repaired [("headers", [("X-E", .str "HE1")])] [("headers", [("Authorization", .str "t")])])
    none (.param "headers" "X-E" (.str "HE1")) :=
  C17_user_config_keeps_examples _ _ _ _ _ _ ⟨[("X-E", .str "HE1")], by simp [lookupC], by simp [lookupC]⟩ (by simp)

example : ∃ res, fillIn (some [("q", .str "Q1")]) (some [("r", .str "gen")]) = some res ∧
    ∀ r ∈ ["q", "r"], (lookupC r res).isSome = true :=
  C17_required_filled _ (by simp) _ _ (by
    intro r hr
    simp at hr
    rcases hr with rfl | rfl
    · exact Or.inl (by simp [lookupC])
    · exact Or.inr ⟨_, rfl, by simp [lookupC]⟩)


/-! ### create_test: Hypothesis phases, for every `settings.phases` and every set of modes -/

/-- without FUZZING among the modes the test never gets the `reuse` or the `generate` phase -/
theorem C17_create_strips_reuse_generate (modes : List Mode) (phases : List HPhase) (h : Mode.fuzzing ∉ modes) :
    HPhase.reuse ∉ createPhases modes phases ∧ HPhase.generate ∉ createPhases modes phases := by
  have := createPhases_not_fuzzing modes phases (by simpa using h)
  simpa using this

/-- …and the `explicit` phase is there exactly when the user's settings have it -/
theorem C17_create_keeps_explicit (modes : List Mode) (phases : List HPhase) :
    HPhase.explicit ∈ createPhases modes phases ↔ HPhase.explicit ∈ phases := by
  have := createPhases_explicit modes phases
  rw [Bool.eq_iff_iff] at this
  simpa using this

/-- with FUZZING the phases that generate inputs are left alone (only `explain` goes) -/
theorem C17_create_fuzzing_keeps (modes : List Mode) (phases : List HPhase) (h : Mode.fuzzing ∈ modes) (p : HPhase)
    (hp : p ≠ .explain) : p ∈ createPhases modes phases ↔ p ∈ phases := by
  have hm : modes.contains .fuzzing = true := by simpa using h
  unfold createPhases dropExplain
  simp only [hm, Bool.not_true, Bool.false_and, Bool.false_eq_true, if_false]
  split
  · simp [List.mem_filter, hp]
  · rfl

/-! ### the examples phase under every configuration, database content (history) and fault -/

/-- **Only documented examples are sent.** In a phase that is not fuzzing, whatever `settings.phases`, the content
    of the example database, `report_multiple_bugs`, `continue_on_failure` and `unique_inputs` are, the conjecture
    engine runs nothing, and every input a request is sent for is one of the examples `add_examples` registered. -/
theorem C17_nonfuzzing_sends_only_registered (vExc vHdr vMark vHash : Variant) (built : Except Exc (List ECase))
    (db : List ECase) (cfg : RunCfg) (h : cfg.mode ≠ .fuzzing) :
    (scenario vExc vHdr vMark vHash built db cfg).engineRan = [] ∧
    ∀ c ∈ (scenario vExc vHdr vMark vHash built db cfg).executed, c ∈ (addExamples vExc vHdr built).sent := by
  have hm : [cfg.mode].contains .fuzzing = false := by
    cases hmode : cfg.mode <;> simp_all
  obtain ⟨h1, h2⟩ := createPhases_not_fuzzing [cfg.mode] cfg.phases hm
  unfold scenario
  simp only
  generalize hb : builtExamples vExc vHdr vMark built _ = b
  have hsub : ∀ c ∈ b.1.sent, c ∈ (addExamples vExc vHdr built).sent := by
    subst hb
    unfold builtExamples
    split <;> simp
  unfold runScenario
  split
  · simp
  · simp only
    generalize hctl : (if cfg.unique = true then fun c => cfg.ctl (firstWithKey (caseKey vHash cfg.sensitive)
      b.1.sent.reverse c) else cfg.ctl) = ctl
    obtain ⟨he, hx⟩ := hypRun_explicit_only (createPhases [cfg.mode] cfg.phases) cfg.rmb
      b.1.sent.reverse (if cfg.useDb then db else []) cfg.gen ctl h1 h2
    refine ⟨he, ?_⟩
    have hexec : ∀ c ∈ (hypRun (createPhases [cfg.mode] cfg.phases) cfg.rmb b.1.sent.reverse
        (if cfg.useDb then db else []) cfg.gen ctl).executed, c ∈ (addExamples vExc vHdr built).sent := by
      intro c hc
      simp only [Exec.executed, he, List.append_nil, hx] at hc
      split at hc
      · exact hsub c (by simpa using runUntil_subset _ _ _ c hc)
      · simp at hc
    intro c hc
    split at hc
    · exact hexec c (dedupKey_subset _ _ _ c hc)
    · exact hexec c hc

/-- **An operation without examples sends nothing and is skipped** — for every `settings.phases`, every database
    content, every generator and every behaviour of the API, in the examples and the coverage mode alike. -/
theorem C17_no_examples_nothing_sent (vExc vHdr vMark vHash : Variant) (db : List ECase) (cfg : RunCfg)
    (h : cfg.mode ≠ .fuzzing) :
    (scenario vExc vHdr vMark vHash (.ok []) db cfg).executed = [] ∧
    (scenario vExc vHdr vMark vHash (.ok []) db cfg).status = .skip ∧
    (scenario vExc vHdr vMark vHash (.ok []) db cfg).reports = [] := by
  have hm : [cfg.mode].contains .fuzzing = false := by
    cases hmode : cfg.mode <;> simp_all
  obtain ⟨h1, h2⟩ := createPhases_not_fuzzing [cfg.mode] cfg.phases hm
  have hb : ∀ r, builtExamples vExc vHdr vMark (.ok []) r = (⟨[], [], false⟩, []) := by
    intro r
    unfold builtExamples
    cases vMark <;> split <;> rfl
  unfold scenario runScenario
  simp only [hb, Bool.false_eq_true, if_false, List.reverse_nil, hypRun_nothing _ _ _ _ _ h1 h2]
  cases cfg.unique <;> simp [Exec.executed, raisedOf, runTest, armOf, markStep, dedupKey]

/-- the same over **histories**: any sequence of runs (fuzzing runs that store failures, examples runs with any
    phases, …) sharing one database, started from any database content -/
theorem C17_history_no_examples_always_skipped (vExc vHdr vMark vHash : Variant) (runs : List RunCfg) :
    ∀ (db : List ECase), ∀ p ∈ runHistory vExc vHdr vMark vHash (.ok []) db runs, p.1.mode ≠ .fuzzing →
      p.2.executed = [] ∧ p.2.status = .skip ∧ p.2.reports = [] := by
  induction runs with
  | nil => intro db p hp; simp [runHistory] at hp
  | cons cfg rest ih =>
    intro db p hp hmode
    simp only [runHistory, List.mem_cons] at hp
    rcases hp with rfl | hp
    · exact C17_no_examples_nothing_sent vExc vHdr vMark vHash db cfg hmode
    · exact ih _ p hp hmode

theorem C17_history_only_registered_sent (vExc vHdr vMark vHash : Variant) (built : Except Exc (List ECase)) (runs : List RunCfg) :
    ∀ (db : List ECase), ∀ p ∈ runHistory vExc vHdr vMark vHash built db runs, p.1.mode ≠ .fuzzing →
      p.2.engineRan = [] ∧ ∀ c ∈ p.2.executed, c ∈ (addExamples vExc vHdr built).sent := by
  induction runs with
  | nil => intro db p hp; simp [runHistory] at hp
  | cons cfg rest ih =>
    intro db p hp hmode
    simp only [runHistory, List.mem_cons] at hp
    rcases hp with rfl | hp
    · exact C17_nonfuzzing_sends_only_registered vExc vHdr vMark vHash built db cfg hmode
    · exact ih _ p hp hmode

/-- why the stripping matters (the contract side): were `reuse` left in, a stored input would be replayed for an
    operation without examples -/
theorem C17_reuse_would_replay {α : Type} (phases : List HPhase) (rmb : Bool) (d : α) (db gen : List α)
    (verdict : α → Verdict) (h : HPhase.reuse ∈ phases) : d ∈ (hypRun phases rmb [] (d :: db) gen verdict).executed := by
  have hr : phases.contains .reuse = true := by simpa using h
  have hw : worst ([] : List Verdict) = .returned := by decide
  have hhead : ∀ l : List α, d ∈ runUntil false verdict (d :: l) := by
    intro l
    simp only [runUntil]
    split <;> simp
  have hex : (if phases.contains .explicit = true then runUntil rmb verdict ([] : List α) else []) = [] := by
    split <;> rfl
  have hne : (Outcome.returned != Outcome.returned) = false := by decide
  unfold hypRun
  simp only [hex, List.map_nil, hw, hne, hr, Bool.true_or, Bool.not_true, Bool.false_eq_true, if_false, if_true,
    Exec.executed, List.nil_append, List.cons_append]
  exact hhead _

/-! ### run_test: what could not be sent is reported whatever else goes wrong in the scenario -/

/-- **An unsendable header example is reported under every other fault.** However `test_function` ended (passed,
    skipped, failed checks, network errors, Unsatisfiable, …), whatever other marks are set and however many errors
    were collected: a non-empty invalid-header mark makes the scenario an ERROR and yields `InvalidHeadersExample`. -/
theorem C17_unsendable_reported_any_fault (raised : Raised) (cof : Bool) (n : Nat) (marks : List Mark)
    (bad : List String) (h : bad ≠ []) :
    (runTest raised cof n marks bad).1 = .error ∧ Report.invalidHeaders bad ∈ (runTest raised cof n marks bad).2 := by
  have hb : (!bad.isEmpty) = true := by cases bad <;> simp_all
  unfold runTest
  simp only [hb]
  constructor
  · exact markStep_error_stays _ _ _ _ (markStep_unguarded _ _).1
  · exact List.mem_append_left _ (markStep_mono _ _ _ _ _ (markStep_unguarded _ _).2)

/-- the same for examples Hypothesis could not satisfy -/
theorem C17_unsatisfiable_reported_any_fault (raised : Raised) (cof : Bool) (n : Nat) (marks : List Mark)
    (bad : List String) (h : Mark.unsatisfiable ∈ marks) :
    (runTest raised cof n marks bad).1 = .error ∧ Report.unsatisfiable ∈ (runTest raised cof n marks bad).2 := by
  have hm : marks.contains .unsatisfiable = true := by simpa using h
  unfold runTest
  simp only [hm]
  constructor
  · exact markStep_error_stays _ _ _ _ (markStep_error_stays _ _ _ _ (markStep_error_stays _ _ _ _
      (markStep_error_stays _ _ _ _ (markStep_unguarded _ _).1)))
  · exact List.mem_append_left _ (markStep_mono _ _ _ _ _ (markStep_mono _ _ _ _ _ (markStep_mono _ _ _ _ _
      (markStep_mono _ _ _ _ _ (markStep_unguarded _ _).2))))

/-- the guarded marks (`… and status != Status.ERROR`) are reported when the test itself did not end as an error -/
theorem C17_build_failure_reported_partial (m : Mark) (hm : m ≠ .invalidHeaders) (raised : Raised) (cof : Bool)
    (n : Nat) (h : (armOf raised).1 ≠ .error) :
    (runTest raised cof n [m] []).1 = .error ∧ m.report ∈ (runTest raised cof n [m] []).2 := by
  cases m <;> cases raised <;> cases cof <;> simp_all [runTest, armOf, markStep, Mark.report]

/-- …but not in general: the guard drops the report when anything else already made the scenario an error -/
theorem C17_build_failure_reported_full_false : ¬ MarkAlwaysReported .nonSerializable .nonSerializable := by
  intro h
  have := h .other false 0
  simp [runTest, armOf, markStep] at this

/-- In the engine's examples phase the guard never bites: when building the examples fails nothing is registered,
    Hypothesis raises SkipTest, and the mark turns the scenario into an ERROR with its report — for every
    `settings.phases` containing `explicit`, every database content and every API behaviour. -/
theorem C17_build_failure_reported_in_examples_phase (vHdr vMark vHash : Variant) (e : Exc) (db : List ECase)
    (cfg : RunCfg) (hmode : cfg.mode = .examples) (hex : HPhase.explicit ∈ cfg.phases) :
    (scenario .repaired vHdr vMark vHash (.error e) db cfg).executed = [] ∧
    (scenario .repaired vHdr vMark vHash (.error e) db cfg).status = .error ∧
    (scenario .repaired vHdr vMark vHash (.error e) db cfg).reports =
      (match e with | .other => [Report.testError] | e => (excMarks .repaired e).map Mark.report) := by
  have hm : [cfg.mode].contains .fuzzing = false := by simp [hmode]
  obtain ⟨h1, h2⟩ := createPhases_not_fuzzing [cfg.mode] cfg.phases hm
  have hreg := registers_of_explicit cfg.mode cfg.phases hmode hex
  unfold scenario
  simp only [hreg, builtExamples, if_true]
  cases e <;> cases cfg.unique <;>
    simp [runScenario, addExamples, excMarks, hypRun_nothing _ _ _ _ _ h1 h2, Exec.executed, raisedOf, runTest, armOf,
      markStep, Mark.report, dedupKey]

/-- the common part of the end-to-end theorems: sent, or (an unsendable header) reported under a non-empty mark.
    With `unique_inputs` the hash must tell apart requests that differ (`vHash = .repaired`). -/
theorem C17_sent_or_mark_reported (vExc vMark vHash : Variant) (cases db : List ECase) (cfg : RunCfg)
    (hmode : cfg.mode = .examples) (hex : HPhase.explicit ∈ cfg.phases) (hrun : NeverStopsEarly cfg)
    (hu : cfg.unique = false ∨ vHash = .repaired)
    (c : ECase) (hc : c ∈ cases) (e : Example) (hcar : Carries c.params c.body e) :
    (∃ c' ∈ (scenario vExc .repaired vMark vHash (.ok cases) db cfg).executed, Carries c'.params c'.body e) ∨
    (∃ n v, e = .param "headers" n v ∧ n ∈ c.invalidHeaders ∧
      (invalidMark vMark cases ≠ [] →
        (scenario vExc .repaired vMark vHash (.ok cases) db cfg).status = .error ∧
        Report.invalidHeaders (invalidMark vMark cases) ∈
          (scenario vExc .repaired vMark vHash (.ok cases) db cfg).reports)) := by
  have hm : [cfg.mode].contains .fuzzing = false := by simp [hmode]
  obtain ⟨h1, h2⟩ := createPhases_not_fuzzing [cfg.mode] cfg.phases hm
  have hexf : (createPhases [cfg.mode] cfg.phases).contains .explicit = true := by
    simpa using (C17_create_keeps_explicit [cfg.mode] cfg.phases).mpr hex
  have hreg := registers_of_explicit cfg.mode cfg.phases hmode hex
  have hgo : ∀ x, goesOn cfg.rmb (cfg.ctl x) = true := by
    intro x
    unfold RunCfg.ctl goesOn
    cases hv : cfg.verdict x
    · simp
    · simp [hrun.1 x hv]
    · simp [hrun.2 x hv]
  by_cases hbad : ∃ n v, e = .param "headers" n v ∧ n ∈ c.invalidHeaders
  · obtain ⟨n, v, rfl, hn⟩ := hbad
    right
    refine ⟨n, v, rfl, hn, fun hne => ?_⟩
    unfold scenario
    simp only [hreg, builtExamples, if_true, runScenario, addExamples, Bool.false_eq_true, if_false]
    exact C17_unsendable_reported_any_fault _ _ _ _ _ hne
  · left
    obtain ⟨c', hc', hcar'⟩ := C17_sendable_examples_survive cases c e hc hcar (by
      intro n v hev hn
      exact hbad ⟨n, v, hev, hn⟩)
    have hc'r : c' ∈ (addLoop .repaired cases).1.reverse := by simpa using hc'
    unfold scenario
    simp only [hreg, builtExamples, if_true, runScenario, addExamples, Bool.false_eq_true, if_false]
    generalize hctl : (if cfg.unique = true then fun c => cfg.ctl (firstWithKey (caseKey vHash cfg.sensitive)
      (addLoop .repaired cases).1.reverse c) else cfg.ctl) = ctl
    have hgo' : ∀ x, goesOn cfg.rmb (ctl x) = true := by
      intro x
      subst hctl
      split
      · exact hgo _
      · exact hgo x
    obtain ⟨he, hx⟩ := hypRun_explicit_only (createPhases [cfg.mode] cfg.phases) cfg.rmb
      (addLoop .repaired cases).1.reverse (if cfg.useDb then db else []) cfg.gen ctl h1 h2
    have hexec : (hypRun (createPhases [cfg.mode] cfg.phases) cfg.rmb (addLoop .repaired cases).1.reverse
        (if cfg.useDb then db else []) cfg.gen ctl).executed = (addLoop .repaired cases).1.reverse := by
      simp only [Exec.executed, he, hx, hexf, if_true, List.append_nil]
      exact runUntil_all _ _ _ (fun x _ => hgo' x)
    rw [hexec]
    rcases hu with hu | hu
    · simp only [hu, Bool.false_eq_true, if_false]
      exact ⟨c', hc'r, hcar'⟩
    · subst hu
      by_cases huq : cfg.unique = true
      · simp only [huq, if_true]
        obtain ⟨c'', hc'', hsame⟩ := dedupKey_covers (caseKey .repaired cfg.sensitive) _ [] c' hc'r
        simp only [List.nil_append] at hc''
        obtain ⟨hp, hb⟩ := sameReq_eq _ _ hsame
        simp only [caseKey] at hp hb
        exact ⟨c'', hc'', by rw [hp, hb]; exact hcar'⟩
      · simp only [huq, if_false]
        exact ⟨c', hc'r, hcar'⟩

/-- **End to end, every configuration, every history, every fault.**  In the examples phase, for every
    `settings.phases` that contains `explicit`, every content of the example database (whatever earlier runs stored),
    every generator, `unique_inputs` on or off, and every behaviour of the API / transport that does not cut the run
    short: each example a generated case carries is sent unchanged by some request, or it is a header that cannot be
    sent and the operation ends as an ERROR whose report names it. -/
theorem C17_every_example_sent_or_reported : EveryExampleSentOrReported .repaired .repaired .repaired := by
  intro vExc cases db cfg hmode hex hrun c hc e hcar
  rcases C17_sent_or_mark_reported vExc .repaired .repaired cases db cfg hmode hex hrun (Or.inr rfl) c hc e hcar with
    h | ⟨n, v, he, hn, h⟩
  · exact Or.inl h
  · have hmem := invalidMark_repaired_mem cases c n hc hn
    obtain ⟨hs, hr⟩ := h (by intro h0; rw [h0] at hmem; simp at hmem)
    exact Or.inr ⟨n, v, he, hn, hs, _, hr, hmem⟩

/-- the snapshot overwrites the mark for every example: the error names only the unsendable headers of the last
    example that has any (`X-B` of the first case of `twoBadHeaders` is neither sent nor named) -/
theorem C17_every_example_sent_or_reported_asFound_false (vHash : Variant) :
    ¬ EveryExampleSentOrReported .repaired .asFound vHash := by
  intro h
  have := h .repaired twoBadHeaders [] ⟨.examples, [.explicit], true, false, false, [], false, [], fun _ => .pass⟩ rfl
    (by simp) ⟨by simp, by simp⟩ ⟨[("headers", [("X-A", .str "ok"), ("X-B", .str "b\nb")])], none, ["X-B"]⟩
    (by simp [twoBadHeaders])
    (.param "headers" "X-B" (.str "b\nb")) ⟨[("X-A", .str "ok"), ("X-B", .str "b\nb")], by simp [lookupC], by simp [lookupC]⟩
  have hres : scenario .repaired .repaired .asFound vHash (.ok twoBadHeaders) []
      ⟨.examples, [.explicit], true, false, false, [], false, [], fun _ => .pass⟩ =
      ⟨[⟨[("headers", [("X-B", .str "ok")])], none, []⟩, ⟨[("headers", [("X-A", .str "ok")])], none, []⟩], [],
       .error, [.invalidHeaders ["X-A"]]⟩ := by cases vHash <;> rfl
  rw [hres] at this
  rcases this with ⟨c', hc', cont, h1, h2⟩ | ⟨n, v, he, _, _, names, hr, hn⟩
  · simp at hc'
    rcases hc' with rfl | rfl <;> simp [lookupC] at h1 <;> subst h1 <;> simp [lookupC] at h2
  · simp at hr
    subst hr
    cases he
    simp at hn

/-- **unique_inputs.** `Case.__hash__` of the snapshot is computed from the *sanitized* code sample: two examples that
    differ only in a value output sanitization masks (`X-API-Key: KEY1` / `KEY2`) have one hash, the second one gets
    the cached outcome of the first and is never sent -/
theorem C17_every_example_sent_or_reported_hash_asFound_false :
    ¬ EveryExampleSentOrReported .repaired .repaired .asFound := by
  intro h
  have := h .repaired twoApiKeys [] ⟨.examples, [.explicit], true, false, true, [("headers", "X-API-Key")], false, [],
      fun _ => .pass⟩ rfl (by simp) ⟨by simp, by simp⟩ ⟨[("headers", [("X-API-Key", .str "KEY1")])], none, []⟩
    (by simp [twoApiKeys])
    (.param "headers" "X-API-Key" (.str "KEY1")) ⟨[("X-API-Key", .str "KEY1")], by simp [lookupC], by simp [lookupC]⟩
  have hres : scenario .repaired .repaired .repaired .asFound (.ok twoApiKeys) []
      ⟨.examples, [.explicit], true, false, true, [("headers", "X-API-Key")], false, [], fun _ => .pass⟩ =
      ⟨[⟨[("headers", [("X-API-Key", .str "KEY2")])], none, []⟩], [], .success, []⟩ := by rfl
  rw [hres] at this
  rcases this with ⟨c', hc', cont, h1, h2⟩ | ⟨n, v, he, hn, _⟩
  · simp at hc'
    subst hc'
    simp [lookupC] at h1
    subst h1
    simp [lookupC] at h2
  · simp at hn

/-- **Fail-fast.** Without `NeverStopsEarly` the statement is false on the code as found: with the default
    `continue_on_failure = False` the request of `q=Q2` (run first: explicit examples run in reverse registration
    order) fails a check, the scenario ends there, and `q=Q1` is sent by no request -/
theorem C17_every_example_sent_always_full_false (vHash : Variant) :
    ¬ EveryExampleSentOrReportedAlways .repaired .repaired vHash := by
  intro h
  have := h .repaired twoQueryExamples [] ⟨.examples, [.explicit], true, false, false, [], false, [], failsOnQ2⟩ rfl
    (by simp) ⟨[("query", [("q", .str "Q1")])], none, []⟩ (by simp [twoQueryExamples])
    (.param "query" "q" (.str "Q1")) ⟨[("q", .str "Q1")], by simp [lookupC], by simp [lookupC]⟩
  have hres : scenario .repaired .repaired .repaired vHash (.ok twoQueryExamples) []
      ⟨.examples, [.explicit], true, false, false, [], false, [], failsOnQ2⟩ =
      ⟨[⟨[("query", [("q", .str "Q2")])], none, []⟩], [], .failure, []⟩ := by cases vHash <;> rfl
  rw [hres] at this
  rcases this with ⟨c', hc', cont, h1, h2⟩ | ⟨n, v, he, _⟩
  · simp at hc'
    subst hc'
    simp [lookupC] at h1
    subst h1
    simp [lookupC] at h2
  · simp at he

/-- what holds on the snapshot (without `unique_inputs`): the operation is reported as an error about unsendable
    header examples -/
theorem C17_every_example_sent_or_reported_partial (vExc vMark vHash : Variant) (cases db : List ECase) (cfg : RunCfg)
    (hmode : cfg.mode = .examples) (hex : HPhase.explicit ∈ cfg.phases)
    (hrun : NeverStopsEarly cfg) (hu : cfg.unique = false ∨ vHash = .repaired) (c : ECase) (hc : c ∈ cases)
    (e : Example) (hcar : Carries c.params c.body e) :
    SentOrOperationReported (scenario vExc .repaired vMark vHash (.ok cases) db cfg) c e := by
  rcases C17_sent_or_mark_reported vExc vMark vHash cases db cfg hmode hex hrun hu c hc e hcar with
    h | ⟨n, v, he, hn, h⟩
  · exact Or.inl h
  · have hne : invalidMark vMark cases ≠ [] := by
      cases vMark with
      | asFound => exact lastInvalid_ne_nil cases c hc (by intro h0; rw [h0] at hn; simp at hn)
      | repaired =>
        have hmem := invalidMark_repaired_mem cases c n hc hn
        intro h0; rw [h0] at hmem; simp at hmem
    obtain ⟨hs, hr⟩ := h hne
    exact Or.inr ⟨n, v, he, hn, hs, _, hr⟩

/-- `runStatus` (the all-requests-pass reading used by the theorems above) is `run_test` for a test that returned
    or was skipped -/
theorem C17_runStatus_is_runTest (r : AddResult) (hr : r.raised = false) (bad : List String)
    (hbad : bad ≠ [] ↔ Mark.invalidHeaders ∈ r.marks) :
    (runTest (if r.sent.isEmpty then .skipTest else .returned) false 0 r.marks bad).1 = runStatus r := by
  obtain ⟨sent, marks, raised⟩ := r
  simp only at hr hbad
  subst hr
  cases marks with
  | nil =>
    have : bad = [] := by
      by_cases h : bad = []
      · exact h
      · exact absurd (hbad.mp h) (by simp)
    subst this
    cases sent <;> simp [runTest, runStatus, armOf, markStep]
  | cons m ms =>
    have hst : runStatus ⟨sent, m :: ms, false⟩ = .error := by simp [runStatus]
    rw [hst]
    cases m with
    | invalidHeaders => exact (C17_unsendable_reported_any_fault _ _ _ _ _ (hbad.mpr (by simp))).1
    | unsatisfiable => exact (C17_unsatisfiable_reported_any_fault _ _ _ _ _ (by simp)).1
    | nonSerializable =>
      unfold runTest
      refine markStep_error_stays _ _ _ _ (markStep_error_stays _ _ _ _ (markStep_error_stays _ _ _ _ ?_))
      simp only [List.contains_cons, beq_self_eq_true, Bool.true_or]
      exact markStep_set_error _ _ _
    | invalidRegex =>
      unfold runTest
      refine markStep_error_stays _ _ _ _ (markStep_error_stays _ _ _ _ ?_)
      simp only [List.contains_cons, beq_self_eq_true, Bool.true_or]
      exact markStep_set_error _ _ _
    | examplesNotBuilt =>
      unfold runTest
      simp only [List.contains_cons, beq_self_eq_true, Bool.true_or]
      exact markStep_set_error _ _ _

/-! ### non-vacuity of the configuration / history / fault theorems -/

/-- the seeded history: fuzzing stores a failing input, the examples phase then runs with `[explicit, reuse]` on the
    same database — the stored input is there, and nothing is sent -/
example : (runHistory .repaired .repaired .repaired .asFound (.ok []) [] fuzzThenExamples).map
    (fun p => (p.2.status, p.2.executed.length)) = [(.failure, 1), (.skip, 0)] := by decide

example : (dbAfter [] fuzzThenExamples[0] (scenario .repaired .repaired .repaired .asFound (.ok []) [] fuzzThenExamples[0])).length = 1 := by
  decide

example : HPhase.reuse ∉ createPhases [.examples] [.explicit, .reuse] :=
  (C17_create_strips_reuse_generate [.examples] [.explicit, .reuse] (by decide)).1

example : createPhases [.examples] [.explicit, .reuse] = [.explicit] ∧
    createPhases [.fuzzing] [.explicit, .reuse, .explain] = [.explicit, .reuse] ∧
    createPhases [.coverage] defaultPhases = [.explicit, .target, .shrink] := by decide

/-- the seeded fault combination: the only request times out (UnexpectedError, one collected error) and the
    header example `X-Trace` was taken out of it -/
example : runTest .unexpectedError false 1 [.invalidHeaders] ["X-Trace"] =
    (.error, [.invalidHeaders ["X-Trace"], .testError]) := by decide

example : (runTest .unexpectedError false 1 [.invalidHeaders] ["X-Trace"]).1 = .error ∧
    Report.invalidHeaders ["X-Trace"] ∈ (runTest .unexpectedError false 1 [.invalidHeaders] ["X-Trace"]).2 :=
  C17_unsendable_reported_any_fault _ _ _ _ _ (by simp)

/-- every request errors, the database holds a stored input, `reuse` is asked for: the query example is sent, the
    unsendable header is reported by name -/
example : SentOrReported (scenario .repaired .repaired .repaired .repaired (.ok twoBadHeaders) [stored]
      ⟨.examples, [.explicit, .reuse], true, false, true, [], true, [stored], fun _ => .error⟩) twoBadHeaders[0]
      (.param "headers" "X-B" (.str "b\nb")) :=
  C17_every_example_sent_or_reported .repaired twoBadHeaders [stored] _ rfl (by simp) ⟨by simp, by simp⟩ _
    (by simp [twoBadHeaders]) _ ⟨[("X-A", .str "ok"), ("X-B", .str "b\nb")], by simp [twoBadHeaders, lookupC], by simp [lookupC]⟩

/-- a failing check with continue_on_failure does not stop the examples: both cases run, the scenario is a FAILURE
    turned into an ERROR by the unsendable headers -/
example : (scenario .repaired .repaired .repaired .asFound (.ok twoBadHeaders) []
      ⟨.examples, [.explicit], false, true, false, [], false, [], fun _ => .fail⟩).executed.length = 2 := by decide

example : (scenario .repaired .repaired .repaired .asFound (.ok twoBadHeaders) []
      ⟨.examples, [.explicit], true, false, false, [], false, [], fun _ => .fail⟩).executed.length = 1 := by decide

/-- `unique_inputs`: with a hash that tells the requests apart both API keys are sent, on the snapshot only one -/
example : (scenario .repaired .repaired .repaired .repaired (.ok twoApiKeys) []
      ⟨.examples, [.explicit], true, false, true, [("headers", "X-API-Key")], false, [], fun _ => .pass⟩).executed.length = 2 ∧
    (scenario .repaired .repaired .repaired .asFound (.ok twoApiKeys) []
      ⟨.examples, [.explicit], true, false, true, [("headers", "X-API-Key")], false, [], fun _ => .pass⟩).executed.length = 1 := by
  decide

example : (scenario .repaired .repaired .repaired .asFound (.error .serializationNotPossible) [stored]
      ⟨.examples, [.explicit, .reuse, .generate], true, false, true, [], true, [stored], fun _ => .fail⟩).reports = [.nonSerializable] :=
  (C17_build_failure_reported_in_examples_phase .repaired .repaired .asFound .serializationNotPossible _ _ rfl (by simp)).2.2

end SV.Props.C17
