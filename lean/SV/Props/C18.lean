/-
  C18 — resource-lifecycle findings follow from the observed history.  Property theorems only.
-/
import SV.Spec.C18
import SV.Proofs.C18Tree

namespace SV.Props.C18
open SV.Model.C18 SV.Spec.C18 SV.Proofs.C18Tree

/-- The zip loop of `_is_prefix_operation` decides segment-wise agreement (no KeyError when identifiers are bound). -/
theorem zipLoop_spec (l r : RPath) (ls rs : List (List Char)) (hb : allBound l r ls rs = true) :
    zipLoop l r ls rs = if allMatch l r ls rs then .yes else .no := by
  induction ls generalizing rs with
  | nil => simp [zipLoop, allMatch]
  | cons a as ih =>
    cases rs with
    | nil => simp [zipLoop, allMatch]
    | cons b bs =>
      simp only [allBound, Bool.and_eq_true] at hb
      obtain ⟨hb1, hb2⟩ := hb
      have ih' := ih bs hb2
      unfold zipLoop allMatch segMatch
      unfold segBound at hb1
      by_cases hbr : (startsWithBrace a && startsWithBrace b) = true
      · simp only [hbr, if_true] at hb1 ⊢
        cases hl : l.get a <;> cases hr : r.get b <;> simp_all
        split <;> simp_all
      · simp only [hbr, Bool.false_eq_true, if_false] at hb1 ⊢
        by_cases h1 : a = b
        · simp_all
        · by_cases h2 : rstripChar 's' a = rstripChar 's' b <;> simp_all

/-- `_is_prefix_operation` = the reference "same resource" relation whenever the compared identifiers are bound. -/
theorem isPrefixOp_spec (l r : RPath) (hb : bound l r = true) :
    isPrefixOp l r = if sameResource l r then .yes else .no := by
  unfold isPrefixOp sameResource
  by_cases h : (parts l).length > (parts r).length
  · have : ¬ (parts l).length ≤ (parts r).length := by omega
    simp [h, this]
  · have h' : (parts l).length ≤ (parts r).length := by omega
    simp only [h, if_false, zipLoop_spec l r _ _ hb, decide_eq_true h', Bool.true_and]

/-- Different identifier values on a shared variable segment ⇒ never "same resource" (first segment form). -/
theorem different_identifier_not_same (l r : RPath) (a b : List Char) (as bs : List (List Char))
    (x y : List Char) (hbrace : (startsWithBrace a && startsWithBrace b) = true)
    (hx : l.get a = some x) (hy : r.get b = some y) (hne : x ≠ y) :
    zipLoop l r (a :: as) (b :: bs) = .no := by
  unfold zipLoop
  simp [hbrace, hx, hy, hne]

/-- one iteration of the repaired loop -/
theorem uafLoop_repaired_step (t : Tree) (cur n : Node) (rest : List Node)
    (hs : findResponse t n.id = n.status) (hbn : bound n.rpath cur.rpath = true) :
    uafLoop .repaired t cur (n :: rest) =
      if deleted2xx n && sameResource n.rpath cur.rpath then .fail n.id else uafLoop .repaired t cur rest := by
  rw [uafLoop]
  simp only [hs, deleted2xx, isPrefixOp_spec n.rpath cur.rpath hbn]
  obtain ⟨nid, npar, nm, nrp, nst⟩ := n
  by_cases hd : isDelete ⟨nid, npar, nm, nrp, nst⟩ = true
  · cases nst with
    | none => simp [hd]
    | some s =>
      by_cases h2 : is2xx s = true
      · by_cases hsr : sameResource nrp cur.rpath = true <;> simp [hd, h2, hsr]
      · simp [hd, h2]
  · simp [hd]

/-- The loop of the repaired `use_after_free` reports iff some related request is a DELETE answered 2xx on the
    same resource. `rels` is whatever `find_related` yielded. -/
theorem uafLoop_repaired_spec (t : Tree) (cur : Node) (rels : List Node)
    (hstat : ∀ n ∈ rels, findResponse t n.id = n.status)
    (hb : relsBound rels cur = true) :
    (∃ i, uafLoop .repaired t cur rels = .fail i) ↔
      rels.any (fun n => deleted2xx n && sameResource n.rpath cur.rpath) = true := by
  induction rels with
  | nil => simp [uafLoop]
  | cons n rest ih =>
    have hs := hstat n (by simp)
    simp only [relsBound, List.all_cons, Bool.and_eq_true] at hb
    obtain ⟨hbn, hbr⟩ := hb
    have ih' := ih (fun m hm => hstat m (by simp [hm])) (by simpa [relsBound] using hbr)
    rw [uafLoop_repaired_step t cur n rest hs hbn, List.any_cons]
    by_cases hc : (deleted2xx n && sameResource n.rpath cur.rpath) = true
    · simp [hc]
    · simp only [hc, Bool.false_eq_true, if_false, Bool.false_or]
      exact ih'

/-- never a KeyError under the boundness hypothesis -/
theorem uafLoop_repaired_total (t : Tree) (cur : Node) (rels : List Node)
    (hstat : ∀ n ∈ rels, findResponse t n.id = n.status)
    (hb : relsBound rels cur = true) : uafLoop .repaired t cur rels ≠ .keyError := by
  induction rels with
  | nil => simp [uafLoop]
  | cons n rest ih =>
    simp only [relsBound, List.all_cons, Bool.and_eq_true] at hb
    obtain ⟨hbn, hbr⟩ := hb
    have ih' := ih (fun m hm => hstat m (by simp [hm])) (by simpa [relsBound] using hbr)
    rw [uafLoop_repaired_step t cur n rest (hstat n (by simp)) hbn]
    split
    · simp
    · exact ih'

/-- C18 (use after free), repaired variant, relative to the traversal: the verdict equals the reference predicate. -/
theorem uaf_exact_partial (t : Tree) (cur : Node) (status : Nat)
    (hstat : ∀ n ∈ findRelated t cur.id, findResponse t n.id = n.status)
    (hb : relsBound (findRelated t cur.id) cur = true) :
    (∃ i, useAfterFree .repaired t cur status = .fail i) ↔
      specUAF (findRelated t cur.id) cur status = true := by
  unfold useAfterFree specUAF
  by_cases h : (status == 404 || decide (status ≥ 500)) = true
  · have : ¬ (status ≠ 404 ∧ status < 500) := by
      simp only [Bool.or_eq_true, beq_iff_eq, decide_eq_true_eq] at h
      omega
    simp [h]
    intro h1 h2
    exact absurd ⟨h1, h2⟩ this
  · simp only [h, Bool.false_eq_true, if_false]
    rw [uafLoop_repaired_spec t cur _ hstat hb]
    simp only [Bool.or_eq_true, beq_iff_eq, decide_eq_true_eq, not_or] at h
    have h1 : (status != 404) = true := by simp [h.1]
    have h2 : decide (status < 500) = true := by simp; omega
    simp [h1, h2]

/-- 5xx and 404 answers are never reported (both variants). -/
theorem uaf_never_on_404_5xx (v : Variant) (t : Tree) (cur : Node) (status : Nat)
    (h : status = 404 ∨ status ≥ 500) : useAfterFree v t cur status = .pass := by
  unfold useAfterFree
  have : (status == 404 || decide (status ≥ 500)) = true := by
    rcases h with h | h <;> simp [h]
  simp [this]

/-! ### the snapshot's variant is wrong in both directions (witnesses replayed on the real code by the harness) -/

private def p (s : String) (vars : List (String × String)) : RPath :=
  ⟨s.toList, vars.map fun (k, v) => (k.toList, v.toList)⟩

/-- POST /users → 201; DELETE /users/1 → 500 (failed!); GET /users/1 → 200 -/
def falseAlarmTree : Tree :=
  [ ⟨0, none, "POST".toList, p "/users" [], some 201⟩,
    ⟨1, some 0, "DELETE".toList, p "/users/{id}" [("id", "1")], some 500⟩,
    ⟨2, some 0, "GET".toList, p "/users/{id}" [("id", "1")], some 200⟩ ]

theorem asFound_false_alarm :
    useAfterFree .asFound falseAlarmTree ⟨2, some 0, "GET".toList, p "/users/{id}" [("id", "1")], some 200⟩ 200 = .fail 1 ∧
    useAfterFree .repaired falseAlarmTree ⟨2, some 0, "GET".toList, p "/users/{id}" [("id", "1")], some 200⟩ 200 = .pass := by
  decide

/-- root DELETE /users/1 → 204 ; GET /users/1 → 200 is a use after free, missed by the snapshot -/
def missTree : Tree :=
  [ ⟨0, none, "DELETE".toList, p "/users/{id}" [("id", "1")], some 204⟩,
    ⟨1, some 0, "GET".toList, p "/users/{id}" [("id", "1")], some 200⟩ ]

theorem asFound_miss :
    useAfterFree .asFound missTree ⟨1, some 0, "GET".toList, p "/users/{id}" [("id", "1")], some 200⟩ 200 = .pass ∧
    useAfterFree .repaired missTree ⟨1, some 0, "GET".toList, p "/users/{id}" [("id", "1")], some 200⟩ 200 = .fail 0 := by
  decide

/-- non-vacuity: the hypotheses of `uaf_exact_partial` hold on a concrete tree and the verdict is a report -/
example : relsBound (findRelated missTree 1) ⟨1, some 0, "GET".toList, p "/users/{id}" [("id", "1")], some 200⟩ = true ∧
    specUAF (findRelated missTree 1) ⟨1, some 0, "GET".toList, p "/users/{id}" [("id", "1")], some 200⟩ 200 = true := by
  decide

/-! ### use after free, closed form: no hypothesis mentions the traversal any more -/

/-- C18 (use after free), repaired variant: on a well-formed recorder (distinct ids, parents recorded before their
    children) and for a current case without children, a report is produced iff the answer was neither 404 nor 5xx
    and some *other* case of the same scenario tree is a DELETE answered 2xx on the same resource. -/
theorem uaf_exact (t : Tree) (cur : Node) (status : Nat)
    (hwf : WF t) (hcur : cur ∈ t) (hleaf : IsLeaf t cur.id)
    (hb : ∀ n ∈ t, bound n.rpath cur.rpath = true) :
    (∃ i, useAfterFree .repaired t cur status = .fail i) ↔
      (status ≠ 404 ∧ status < 500 ∧
        ∃ n ∈ t, n.id ≠ cur.id ∧ rootOf t t.length n.id = rootOf t t.length cur.id ∧
          deleted2xx n = true ∧ sameResource n.rpath cur.rpath = true) := by
  have hmem := findRelated_mem t cur.id hwf ⟨cur, hcur, rfl⟩ hleaf
  have hstat : ∀ n ∈ findRelated t cur.id, findResponse t n.id = n.status :=
    fun n hn => findResponse_of_mem t hwf n ((hmem n).1 hn).1
  have hb' : relsBound (findRelated t cur.id) cur = true := by
    unfold relsBound
    rw [List.all_eq_true]
    exact fun n hn => hb n ((hmem n).1 hn).1
  rw [uaf_exact_partial t cur status hstat hb']
  unfold specUAF
  simp only [Bool.and_eq_true, bne_iff_ne, ne_eq, decide_eq_true_eq, List.any_eq_true, hmem]
  constructor
  · rintro ⟨⟨h1, h2⟩, n, ⟨hn, hne, hr⟩, hd, hs⟩
    exact ⟨h1, h2, n, hn, hne, hr, hd, hs⟩
  · rintro ⟨h1, h2, n, hn, hne, hr, hd, hs⟩
    exact ⟨⟨h1, h2⟩, n, ⟨hn, hne, hr⟩, hd, hs⟩

/-- POST /users → 201; DELETE /users/1 → 204; GET /users/1 → 200 (siblings below the POST) -/
def uafTree : Tree :=
  [ ⟨0, none, "POST".toList, p "/users" [], some 201⟩,
    ⟨1, some 0, "DELETE".toList, p "/users/{id}" [("id", "1")], some 204⟩,
    ⟨2, some 0, "GET".toList, p "/users/{id}" [("id", "1")], some 200⟩ ]

/-- non-vacuity: every hypothesis of `uaf_exact` holds on a concrete 3-node tree, and so does the right-hand side -/
example :
    let cur : Node := ⟨2, some 0, "GET".toList, p "/users/{id}" [("id", "1")], some 200⟩
    WF uafTree ∧ cur ∈ uafTree ∧ IsLeaf uafTree cur.id ∧
    (∀ n ∈ uafTree, bound n.rpath cur.rpath = true) ∧
    ((200 : Nat) ≠ 404 ∧ 200 < 500 ∧
      ∃ n ∈ uafTree, n.id ≠ cur.id ∧ rootOf uafTree uafTree.length n.id = rootOf uafTree uafTree.length cur.id ∧
        deleted2xx n = true ∧ sameResource n.rpath cur.rpath = true) ∧
    useAfterFree .repaired uafTree cur 200 = .fail 1 := by
  intro cur
  refine ⟨⟨by decide, ?_⟩, .tail _ (.tail _ (.head _)), by unfold IsLeaf; decide, by decide, ?_, by decide⟩
  · intro i h q hq
    have hi : i = 0 ∨ i = 1 ∨ i = 2 := by
      simp only [uafTree, List.length_cons, List.length_nil] at h
      omega
    rcases hi with rfl | rfl | rfl
    · simp [uafTree] at hq
    · exact ⟨0, by omega, by decide, by simpa [uafTree] using hq⟩
    · exact ⟨0, by omega, by decide, by simpa [uafTree] using hq⟩
  · refine ⟨by decide, by decide, ⟨1, some 0, "DELETE".toList, p "/users/{id}" [("id", "1")], some 204⟩,
      .tail _ (.head _), ?_⟩
    decide

/-! ### ensure_resource_availability: reported only under the stated conditions -/

theorem eraDeleteLoop_step (t : Tree) (cur n : Node) (rest : List Node)
    (hs : findResponse t n.id = n.status) (hbn : bound n.rpath cur.rpath = true) :
    eraDeleteLoop t cur (n :: rest) =
      if deleted2xx n && sameResource n.rpath cur.rpath then some .pass else eraDeleteLoop t cur rest := by
  rw [eraDeleteLoop]
  simp only [hs, deleted2xx, isPrefixOp_spec n.rpath cur.rpath hbn]
  obtain ⟨nid, npar, nm, nrp, nst⟩ := n
  by_cases hd : isDelete ⟨nid, npar, nm, nrp, nst⟩ = true
  · cases nst with
    | none => simp [hd]
    | some s =>
      by_cases h2 : is2xx s = true
      · by_cases hsr : sameResource nrp cur.rpath = true <;> simp [hd, h2, hsr]
      · simp [hd, h2]
  · simp [hd]

theorem eraDeleteLoop_none (t : Tree) (cur : Node) (rels : List Node)
    (hstat : ∀ n ∈ rels, findResponse t n.id = n.status)
    (hb : relsBound rels cur = true)
    (h : eraDeleteLoop t cur rels = none) :
    rels.any (fun n => deleted2xx n && sameResource n.rpath cur.rpath) = false := by
  induction rels with
  | nil => simp
  | cons n rest ih =>
    have hs := hstat n (by simp)
    simp only [relsBound, List.all_cons, Bool.and_eq_true] at hb
    obtain ⟨hbn, hbr⟩ := hb
    rw [eraDeleteLoop_step t cur n rest hs hbn] at h
    rw [List.any_cons]
    by_cases hc : (deleted2xx n && sameResource n.rpath cur.rpath) = true
    · simp [hc] at h
    · simp only [hc, Bool.false_eq_true, if_false] at h
      have ihh := ih (fun m hm => hstat m (by simp [hm])) (by simpa [relsBound] using hbr) h
      simp [hc, ihh]

theorem eraDeleteLoop_some (t : Tree) (cur : Node) (rels : List Node) (r : Out)
    (hstat : ∀ n ∈ rels, findResponse t n.id = n.status)
    (hb : relsBound rels cur = true)
    (h : eraDeleteLoop t cur rels = some r) : r = .pass := by
  induction rels with
  | nil => simp [eraDeleteLoop] at h
  | cons n rest ih =>
    simp only [relsBound, List.all_cons, Bool.and_eq_true] at hb
    obtain ⟨hbn, hbr⟩ := hb
    rw [eraDeleteLoop_step t cur n rest (hstat n (by simp)) hbn] at h
    split at h
    · cases h; rfl
    · exact ih (fun m hm => hstat m (by simp [hm])) (by simpa [relsBound] using hbr) h

/-- C18 (resource availability): a report implies every condition of the statement. -/
theorem era_sound (t : Tree) (cur : Node) (status : Nat) (o : Overrides) (params : List (String × String))
    (hstat : ∀ n ∈ findRelated t cur.id, findResponse t n.id = n.status)
    (hpstat : ∀ q, findParent t cur.id = some q → findResponse t q.id = q.status)
    (hb : relsBound (findRelated t cur.id) cur = true)
    (hpb : ∀ q, findParent t cur.id = some q → bound q.rpath cur.rpath = true)
    (i : Nat) (h : ensureResourceAvailability t cur status o params = .fail i) :
    specERA t (findRelated t cur.id) cur status o params = true := by
  unfold ensureResourceAvailability at h
  unfold specERA
  by_cases hs : (400 ≤ status && status < 500) = true
  · simp only [hs, Bool.not_true, Bool.false_eq_true, if_false] at h
    cases hp : findParent t cur.id with
    | none => simp [hp] at h
    | some q =>
      have hq := hpstat q hp
      have hqb := hpb q hp
      simp only [hp, hq, isPrefixOp_spec q.rpath cur.rpath hqb] at h
      cases hst : q.status with
      | none => simp [hst] at h
      | some ps =>
        simp only [hst] at h
        by_cases h1 : isPost q = true
        · by_cases h2 : (200 ≤ ps && ps < 400) = true
          · by_cases h3 : sameResource q.rpath cur.rpath = true
            · by_cases h4 : allOverridden o params = true
              · simp only [h1, h2, h3, h4, Bool.not_true, Bool.false_eq_true, if_false, if_true] at h
                cases hl : eraDeleteLoop t cur (findRelated t cur.id) with
                | some r =>
                  simp only [hl] at h
                  have := eraDeleteLoop_some t cur _ r hstat hb hl
                  rw [this] at h
                  cases h
                | none =>
                  have := eraDeleteLoop_none t cur _ hstat hb hl
                  simp only [hst] at *
                  simp [hs, h1, h3, h4, this]
                  simpa using h2
              · simp [h1, h2, h3, h4] at h
            · simp [h1, h2, h3] at h
          · simp [h1, h2] at h
        · simp [h1] at h
  · simp [hs] at h

/-! ### other checks record exchanges of their own in the same recorder -/

/-- **Probes that were refused never change the verdict.**  `ignored_auth` sends the request again without / with invalid
    credentials and records those exchanges as children of the case: whatever requests are added to the related set,
    as long as none of them is a DELETE answered 2xx, the reference verdict for every request stays what it was. -/
theorem uaf_unchanged_by_refused_probes (rels aux : List Node) (cur : Node) (status : Nat)
    (h : ∀ n ∈ aux, deleted2xx n = false) :
    specUAF (rels ++ aux) cur status = specUAF rels cur status := by
  unfold specUAF
  have : aux.any (fun n => deleted2xx n && sameResource n.rpath cur.rpath) = false := by
    rw [List.any_eq_false]
    intro n hn
    simp [h n hn]
  simp [List.any_append, this]

/-- …whereas *overwriting* the recorded answer of the case itself does: DELETE /users/1 answered 204, then the probe's
    401 stored under the DELETE's id — the later GET /users/1 → 200 is no longer reported. -/
theorem overwritten_answer_hides_use_after_free :
    let del (st : Nat) : Node := ⟨0, none, "DELETE".toList, p "/users/{id}" [("id", "1")], some st⟩
    let get : Node := ⟨1, some 0, "GET".toList, p "/users/{id}" [("id", "1")], some 200⟩
    specUAF [del 204] get 200 = true ∧ specUAF [del 401] get 200 = false := by
  decide

end SV.Props.C18
