/-
  C19 — extensions apply exactly where their own filters say.  Property theorems only.
  `V25.repaired` is the closure machine of proposed_fixes/F25.diff, `V25.asFound` the pinned snapshot,
  `V25.nonlocalOnly` the snapshot plus `nonlocal filter_set` in `init_filter_set`.
-/
import SV.Proofs.C19
import SV.Proofs.C19Pipeline

namespace SV.Props.C19
open SV.Model.C19 SV.Spec.C19 SV.Proofs.C19

/-! ### C19_own_filter: every registration owns exactly the filters chained on its own decorator expression -/

/-- State form, ALL operation sequences on any number of `to_filterable_hook` instances: after any history the
    repaired closure machine gives every hook function exactly the filter the aliasing-free reference machine
    gives it, and every call answers the same (ok / ValueError / "Filter already exists"). -/
theorem own_filter_refines (nM : Nat) (disp : Nat → Nat) (ops : List Op) :
    (∀ h, filterOf (run .repaired (init nM disp) ops) h = afilterOf (arun (ainit nM disp) ops) h) ∧
    outs .repaired (init nM disp) ops = aouts (ainit nM disp) ops ∧
    (run .repaired (init nM disp) ops).hooks = (arun (ainit nM disp) ops).hooks := by
  obtain ⟨h1, h2⟩ := rel_run _ _ ops (rel_init nM disp)
  exact ⟨fun h => rel_filterOf _ _ h1 h, h2, h1.hooks⟩

/-- History form, function decorator: whatever happened before (`pre`) and happens afterwards (`post`, as long as
    the same function object is not registered again), a hook registered by `register(hook)` carries exactly the
    filters chained on that `register` since its previous call — nothing of any other registration. -/
theorem own_filter_fn (nM : Nat) (disp : Nat → Nat) (pre post : List Op) (m h : Nat) (n : HookName)
    (hm : m < nM) (hn : n.filterable = true) (hpost : noReReg h post = true) :
    filterOf (run .repaired (init nM disp) (pre ++ .registerFn m h n :: post)) h
      = some (addAll FS.empty (pendingWrites m [] pre)) := by
  rw [(own_filter_refines nM disp _).1 h, arun_append]
  have hnM : (arun (ainit nM disp) pre).nM = nM := by rw [arun_nM]; rfl
  have hp := arun_pend (ainit nM disp) pre m [] (by simpa [ainit] using hm) (by simp [ainit, addAll])
  generalize arun (ainit nM disp) pre = a1 at hnM hp
  have hm1 : m < a1.nM := hnM ▸ hm
  have hf : (astep a1 (.registerFn m h n)).1.filt h = some (.val (a1.pend m)) := by
    simp [astep, hm1, hn, aaddHook]
  simp only [arun, afilterOf, arun_filt_frame _ post h hpost, hf, hp]

/-- History form, by-name decorator `d = register("name")`: the hook carries the filters chained on `register`
    before that call plus everything chained on `d` itself — nothing else, whatever is interleaved. -/
theorem own_filter_name (nM : Nat) (disp : Nat → Nat) (pre mid post : List Op) (m h : Nat) (n : HookName)
    (hm : m < nM) (hn : n.filterable = true) (hpost : noReReg h post = true) :
    let d := (run .repaired (init nM disp) pre).nD
    filterOf (run .repaired (init nM disp) (pre ++ .registerName m n :: (mid ++ .decorate d h :: post))) h
      = some (addAll (addAll FS.empty (pendingWrites m [] pre)) (decoWrites d (mid ++ .decorate d h :: post))) := by
  intro d
  have hd : d = (arun (ainit nM disp) pre).nD := (rel_run _ _ pre (rel_init nM disp)).1.nD
  rw [(own_filter_refines nM disp _).1 h, arun_append]
  have hnM : (arun (ainit nM disp) pre).nM = nM := by rw [arun_nM]; rfl
  have hp := arun_pend (ainit nM disp) pre m [] (by simpa [ainit] using hm) (by simp [ainit, addAll])
  generalize arun (ainit nM disp) pre = a1 at hnM hp hd
  have hm1 : m < a1.nM := hnM ▸ hm
  -- the `register("name")` call
  have h2 : (astep a1 (.registerName m n)).1.nD = d + 1 ∧ (astep a1 (.registerName m n)).1.dFs d = a1.pend m ∧
      (astep a1 (.registerName m n)).1.dName d = n ∧ (astep a1 (.registerName m n)).1.dDead d = false := by
    simp [astep, hm1, hn, hd]
  rw [arun]
  generalize (astep a1 (.registerName m n)).1 = a2 at h2
  obtain ⟨h2a, h2b, h2c, h2d⟩ := h2
  have hd2 : d < a2.nD := by omega
  -- the value of `d` at the end
  have hfs := arun_dFs a2 (mid ++ .decorate d h :: post) d hd2 h2d
  -- the source of `h` at the end
  rw [arun_append] at hfs ⊢
  have hd3 : d < (arun a2 mid).nD := Nat.lt_of_lt_of_le hd2 (arun_nD_le a2 mid)
  have hn3 : (arun a2 mid).dName d = n := by rw [arun_dName a2 mid d hd2, h2c]
  have hl3 : (arun a2 mid).dDead d = false := by rw [arun_dDead a2 mid d hd2, h2d]
  generalize arun a2 mid = a3 at hd3 hn3 hl3 hfs
  have hf : (astep a3 (.decorate d h)).1.filt h = some (.deco d) := by
    simp [astep, hd3, hn3, hl3, hn, aaddHook]
  rw [arun] at hfs ⊢
  simp only [afilterOf, arun_filt_frame _ post h hpost, hf, hfs, h2b, hp]

/-- non-vacuity of `own_filter_fn` / `own_filter_name`: concrete histories on two machines -/
example : filterOf (run .repaired (init 2 fun _ => 0)
    ([.regApply 0 true 0, .registerFn 0 0 (.gen .map .query), .regApply 1 false 2, .regApply 0 true 1] ++
      .registerFn 0 1 (.gen .map .query) :: [.registerFn 1 2 (.gen .map .body), .registerFn 0 3 (.gen .map .query)])) 1
    = some ⟨[1], []⟩ := by decide
example : filterOf (run .repaired (init 1 fun _ => 0)
    ([.regApply 0 true 0] ++ .registerName 0 (.gen .map .query) ::
      ([.regApply 0 true 1, .decoApply 0 false 2] ++ .decorate 0 0 :: [.registerFn 0 1 (.gen .map .query)]))) 0
    = some ⟨[0], [2]⟩ := by decide

/-! ### the pinned snapshot violates C19_own_filter: three witnesses (replayed on the real code by the harness) -/

/-- (i) the second function-form registration receives the first one's FilterSet and loses its own filter -/
theorem asFound_second_fn_gets_first_filter :
    let ops := [Op.regApply 0 true 0, .registerFn 0 0 (.gen .map .query),
                .regApply 0 true 1, .registerFn 0 1 (.gen .map .query)]
    filterOf (run .asFound (init 1 fun _ => 0) ops) 1 = some ⟨[0], []⟩ ∧
    (run .asFound (init 1 fun _ => 0) ops).attr 1 = (run .asFound (init 1 fun _ => 0) ops).attr 0 ∧
    afilterOf (arun (ainit 1 fun _ => 0) ops) 1 = some ⟨[1], []⟩ ∧
    filterOf (run .repaired (init 1 fun _ => 0) ops) 1 = some ⟨[1], []⟩ := by decide

/-- (ii) `register("map_query").apply_to(f)(hook)` writes the filter to a set nobody reads -/
theorem asFound_by_name_loses_filter :
    let ops := [Op.registerName 0 (.gen .map .query), .decoApply 0 true 0, .decorate 0 0]
    filterOf (run .asFound (init 1 fun _ => 0) ops) 0 = some ⟨[], []⟩ ∧
    afilterOf (arun (ainit 1 fun _ => 0) ops) 0 = some ⟨[0], []⟩ ∧
    filterOf (run .repaired (init 1 fun _ => 0) ops) 0 = some ⟨[0], []⟩ := by decide

/-- (iii) a later hook registered WITHOUT filters inherits the first hook's filter -/
theorem asFound_unfiltered_inherits :
    let ops := [Op.regApply 0 true 0, .registerFn 0 0 (.gen .map .query), .registerFn 0 1 (.gen .map .query)]
    filterOf (run .asFound (init 1 fun _ => 0) ops) 1 = some ⟨[0], []⟩ ∧
    afilterOf (arun (ainit 1 fun _ => 0) ops) 1 = some ⟨[], []⟩ ∧
    filterOf (run .repaired (init 1 fun _ => 0) ops) 1 = some ⟨[], []⟩ := by decide

/-- (iv) before the first function-form registration all chains land in ONE shared set: a by-name hook sees the
    filter chained for a later hook -/
theorem asFound_shared_before_first_fn :
    let ops := [Op.regApply 0 true 0, .registerName 0 (.gen .map .query), .decorate 0 0,
                .regApply 0 true 1, .registerFn 0 1 (.gen .map .query)]
    filterOf (run .asFound (init 1 fun _ => 0) ops) 0 = some ⟨[0, 1], []⟩ ∧
    afilterOf (arun (ainit 1 fun _ => 0) ops) 0 = some ⟨[0], []⟩ ∧
    filterOf (run .repaired (init 1 fun _ => 0) ops) 0 = some ⟨[0], []⟩ := by decide

/-- the full statement fails for the snapshot -/
theorem own_filter_full_false :
    ¬ (∀ (nM : Nat) (disp : Nat → Nat) (ops : List Op) (h : Nat),
        filterOf (run .asFound (init nM disp) ops) h = afilterOf (arun (ainit nM disp) ops) h) := by
  intro hall
  have := hall 1 (fun _ => 0) [.regApply 0 true 0, .registerFn 0 0 (.gen .map .query), .registerFn 0 1 (.gen .map .query)] 1
  revert this
  decide

/-- merely adding `nonlocal filter_set` to `init_filter_set` is not a repair: the by-name decorator's set leaks into
    the next registration (a hook registered without filters receives the decorator's) -/
theorem nonlocalOnly_leaks :
    let ops := [Op.registerName 0 (.gen .map .query), .decoApply 0 true 0, .decorate 0 0,
                .registerFn 0 1 (.gen .map .query)]
    filterOf (run .nonlocalOnly (init 1 fun _ => 0) ops) 1 = some ⟨[0], []⟩ ∧
    afilterOf (arun (ainit 1 fun _ => 0) ops) 1 = some ⟨[], []⟩ ∧
    filterOf (run .repaired (init 1 fun _ => 0) ops) 1 = some ⟨[], []⟩ := by decide

/-- … although it does repair witnesses (i) and (iii) -/
theorem nonlocalOnly_fixes_fn_form :
    let ops := [Op.regApply 0 true 0, .registerFn 0 0 (.gen .map .query), .regApply 0 true 1,
                .registerFn 0 1 (.gen .map .query), .registerFn 0 2 (.gen .map .query)]
    filterOf (run .nonlocalOnly (init 1 fun _ => 0) ops) 1 = some ⟨[1], []⟩ ∧
    filterOf (run .nonlocalOnly (init 1 fun _ => 0) ops) 2 = some ⟨[], []⟩ := by decide

/-! ### C19_applied_where: a registered hook is applied to an operation iff its own filter matches -/

/-- `FilterSet.match` is the stated rule -/
theorem fs_matches_spec (mt : Nat → Nat → Bool) (s : FS) (o : Nat) :
    s.matches mt o = true ↔ specMatches mt s o := by
  obtain ⟨inc, exc⟩ := s
  unfold FS.matches specMatches
  by_cases he : exc.any (mt · o) = true
  · simp only [he, if_true]
    simp only [List.any_eq_true] at he
    obtain ⟨f, hf, hm⟩ := he
    constructor
    · intro h; cases h
    · intro h; have := h.1 f hf; simp [hm] at this
  · simp only [he]
    have he' : ∀ f ∈ exc, mt f o = false := by
      intro f hf
      cases hm : mt f o with
      | false => rfl
      | true => exact absurd (List.any_eq_true.2 ⟨f, hf, hm⟩) he
    cases inc with
    | nil => simpa using he'
    | cons a as => simp; intro _; exact he'

/-- `_should_skip_hook` = "has a filter and it does not match" -/
theorem shouldSkip_spec (mt : Nat → Nat → Bool) (s : St) (h o : Nat) :
    shouldSkip mt s h (some o) = !specApplies mt (filterOf s h) o := by
  unfold shouldSkip specApplies filterOf
  cases s.attr h <;> simp

/-- hooks that take no operation (`ctx.operation is None`) are never skipped -/
theorem shouldSkip_no_operation (mt : Nat → Nat → Bool) (s : St) (h : Nat) : shouldSkip mt s h none = false := by
  unfold shouldSkip
  cases s.attr h <;> rfl

/-- container hooks (`before_generate_X / filter_X / map_X / flatmap_X`) of one dispatcher: applied iff registered
    under that name on that dispatcher and the hook's own filter admits the operation — in every state. -/
theorem applied_where (mt : Nat → Nat → Bool) (s : St) (disp : Nat) (t : Target) (o : Nat) (a : Action) (h : Nat) :
    (a, h) ∈ applyToContainer mt s disp t (some o) ↔
      (HookName.gen a t, h) ∈ s.hooks disp ∧ specApplies mt (filterOf s h) o = true := by
  simp only [applyToContainer, dispatch, byName, shouldSkip_spec, List.mem_flatMap, List.mem_map, List.mem_filter,
    Bool.not_not]
  constructor
  · rintro ⟨a', _, h', ⟨⟨⟨n, h''⟩, ⟨hp, hn⟩, rfl⟩, happ⟩, heq⟩
    cases heq
    simp only [decide_eq_true_eq] at hn
    subst hn
    exact ⟨hp, happ⟩
  · rintro ⟨hp, happ⟩
    refine ⟨a, by cases a <;> simp [actions], h, ⟨⟨(HookName.gen a t, h), ⟨hp, by simp⟩, rfl⟩, happ⟩, rfl⟩

/-- … and within one action the hooks run in registration order -/
theorem applied_in_registration_order (mt : Nat → Nat → Bool) (s : St) (disp : Nat) (n : HookName) (o : Option Nat) :
    (dispatch mt s disp n o).Sublist (byName s disp n) := by
  unfold dispatch
  exact List.filter_sublist

/-- `HookDispatcher.dispatch(name, ctx)` likewise -/
theorem dispatch_where (mt : Nat → Nat → Bool) (s : St) (disp : Nat) (n : HookName) (o : Nat) (h : Nat) :
    h ∈ dispatch mt s disp n (some o) ↔ (n, h) ∈ s.hooks disp ∧ specApplies mt (filterOf s h) o = true := by
  simp only [dispatch, byName, shouldSkip_spec, List.mem_map, List.mem_filter, Bool.not_not]
  constructor
  · rintro ⟨⟨⟨n', h'⟩, ⟨hp, hn⟩, rfl⟩, happ⟩
    simp only [decide_eq_true_eq] at hn
    subst hn
    exact ⟨hp, happ⟩
  · rintro ⟨hp, happ⟩
    exact ⟨⟨(n, h), ⟨hp, by simp⟩, rfl⟩, happ⟩

/-- the `*_case` hooks in the repaired `_apply_hooks` (proposed_fixes/F26.diff) -/
theorem case_applied_where (mt : Nat → Nat → Bool) (s : St) (disp : Nat) (o : Nat) (a : Action) (h : Nat) :
    (a, h) ∈ applyCaseHooks .repaired mt s disp o ↔
      (HookName.gen a .case, h) ∈ s.hooks disp ∧ specApplies mt (filterOf s h) o = true := by
  simp only [applyCaseHooks]
  exact applied_where mt s disp .case o a h

/-- the snapshot's `_apply_hooks` never consults the filter: a `map_case` hook restricted to operation 0 is applied to
    operation 1 (F26) -/
theorem case_applied_full_false :
    let s := run .repaired (init 1 fun _ => 0) [.regApply 0 true 0, .registerFn 0 0 (.gen .map .case)]
    let mt : Nat → Nat → Bool := fun f o => f == 0 && o == 0
    filterOf s 0 = some ⟨[0], []⟩ ∧ specApplies mt (filterOf s 0) 1 = false ∧
    (Action.map, 0) ∈ applyCaseHooks .asFound mt s 0 1 ∧ (Action.map, 0) ∉ applyCaseHooks .repaired mt s 0 1 := by
  decide

/-- in the snapshot the `*_case` hooks are applied wherever they are registered -/
theorem case_applied_asFound (mt : Nat → Nat → Bool) (s : St) (disp : Nat) (o : Nat) (a : Action) (h : Nat) :
    (a, h) ∈ applyCaseHooks .asFound mt s disp o ↔ (HookName.gen a .case, h) ∈ s.hooks disp := by
  simp only [applyCaseHooks, byName, List.mem_flatMap, List.mem_map, List.mem_filter]
  constructor
  · rintro ⟨a', _, h', ⟨⟨n, h''⟩, ⟨hp, hn⟩, rfl⟩, heq⟩
    cases heq
    simp only [decide_eq_true_eq] at hn
    subst hn
    exact hp
  · intro hp
    exact ⟨a, by cases a <;> simp [actions], h, ⟨(HookName.gen a .case, h), ⟨hp, by simp⟩, rfl⟩, rfl⟩

/-! ### C19_all_scopes: hooks of all applicable scopes are all applied -/

theorem all_scopes (mt : Nat → Nat → Bool) (s : St) (withTest : Bool) (t : Target) (o : Nat) (d : Nat) (a : Action) (h : Nat) :
    (d, a, h) ∈ applyAll mt s withTest t o ↔
      (d = 0 ∨ d = 1 ∨ (d = 2 ∧ withTest = true)) ∧
      (HookName.gen a t, h) ∈ s.hooks d ∧ specApplies mt (filterOf s h) o = true := by
  simp only [applyAll, List.mem_append, List.mem_map, ← applied_where]
  constructor
  · rintro ((⟨p, hp, heq⟩ | ⟨p, hp, heq⟩) | hx)
    · cases heq; exact ⟨Or.inl rfl, hp⟩
    · cases heq; exact ⟨Or.inr (Or.inl rfl), hp⟩
    · cases withTest with
      | false => simp at hx
      | true =>
        simp only [if_true, List.mem_map] at hx
        obtain ⟨p, hp, heq⟩ := hx
        cases heq; exact ⟨Or.inr (Or.inr ⟨rfl, rfl⟩), hp⟩
  · rintro ⟨hd | hd | ⟨hd, hw⟩, hp⟩
    · subst hd; exact Or.inl (Or.inl ⟨(a, h), hp, rfl⟩)
    · subst hd; exact Or.inl (Or.inr ⟨(a, h), hp, rfl⟩)
    · subst hd; subst hw; exact Or.inr (by simp only [if_true, List.mem_map]; exact ⟨(a, h), hp, rfl⟩)

/-- GLOBAL hooks first, then the schema's, then the test's -/
theorem all_scopes_order (mt : Nat → Nat → Bool) (s : St) (t : Target) (o : Nat) :
    (applyAll mt s true t o).map (·.1) =
      (applyToContainer mt s 0 t (some o)).map (fun _ => 0) ++ (applyToContainer mt s 1 t (some o)).map (fun _ => 1) ++
      (applyToContainer mt s 2 t (some o)).map (fun _ => 2) := by
  simp [applyAll, List.map_append, List.map_map, Function.comp_def]

/-! ### the strategy built for an operation: which hook FUNCTION every stage calls when a value is drawn

  `stagesOf` is the code-shaped model of `apply_to_all_dispatchers` / `as_strategy._apply_hooks`: loops that assign
  one local variable `hook`, skip, and hand closures to `.filter/.map/.flatmap`; `specStages` is the property's
  reading (per scope, per kind, the registered hooks whose OWN filter admits the operation, in registration order,
  each stage calling that very hook with the context of that operation). -/

/-- every state: the closures built with `partial(hook, context)` call exactly the hooks the property prescribes —
    same scope, same kind, same order, same hook function, context of the operation the strategy is built for -/
theorem pipeline_is_spec (mt : Nat → Nat → Bool) (s : St) (withTest : Bool) (t : Target) (o : Nat) :
    stagesOf .byValue .repaired mt s withTest t o = specStages mt (filterOf s) s.hooks withTest t o := by
  unfold stagesOf specStages
  congr 1
  funext d
  rw [skipsFor_repaired, frameOf_resolve]
  simp [List.map_flatMap, List.map_map, kept_true, Function.comp_def]

/-- … hence after ANY registration history (repaired `to_filterable_hook`) the stages are those the aliasing-free
    reference machine prescribes: a hook's stage is there iff the filters chained on its own decorator expression
    admit the operation, whatever was registered before or after, by whatever decorator form -/
theorem pipeline_after_history (nM : Nat) (disp : Nat → Nat) (ops : List Op) (mt : Nat → Nat → Bool) (withTest : Bool)
    (t : Target) (o : Nat) :
    stagesOf .byValue .repaired mt (run .repaired (init nM disp) ops) withTest t o =
      specStages mt (afilterOf (arun (ainit nM disp) ops)) (arun (ainit nM disp) ops).hooks withTest t o := by
  rw [pipeline_is_spec]
  obtain ⟨h1, _, h3⟩ := own_filter_refines nM disp ops
  have h1' : filterOf (run .repaired (init nM disp) ops) = afilterOf (arun (ainit nM disp) ops) := funext h1
  rw [h3, h1']

/-- … and so is the strategy itself, for every behaviour of the user's hook functions and every base strategy -/
theorem strategy_after_history {α : Type} (I : Interp α) (base : Strat α) (nM : Nat) (disp : Nat → Nat) (ops : List Op)
    (mt : Nat → Nat → Bool) (withTest : Bool) (t : Target) (o : Nat) :
    denote I (untag (stagesOf .byValue .repaired mt (run .repaired (init nM disp) ops) withTest t o)) base =
      denote I (untag (specStages mt (afilterOf (arun (ainit nM disp) ops)) (arun (ainit nM disp) ops).hooks
        withTest t o)) base := by
  rw [pipeline_after_history]

/-- membership in the prescribed stages -/
theorem specStages_mem (mt : Nat → Nat → Bool) (filt : Nat → Option FS) (hooks : Nat → List (HookName × Nat))
    (withTest : Bool) (t : Target) (o : Nat) (d : Nat) (a : Action) (h : Nat) (c : Option Nat) :
    (d, a, h, c) ∈ specStages mt filt hooks withTest t o ↔
      (d = 0 ∨ d = 1 ∨ (d = 2 ∧ withTest = true)) ∧ c = some o ∧
      (HookName.gen a t, h) ∈ hooks d ∧ specApplies mt (filt h) o = true := by
  simp only [specStages, ownMatching, List.mem_flatMap, List.mem_map, List.mem_filter, Bool.and_eq_true,
    decide_eq_true_eq]
  constructor
  · rintro ⟨d', hd', a', _, h', ⟨⟨n, h''⟩, ⟨hp, hn, happ⟩, rfl⟩, heq⟩
    cases heq
    simp only at hn
    subst hn
    refine ⟨?_, rfl, hp, happ⟩
    cases withTest <;> simp [scopes] at hd' ⊢ <;> omega
  · rintro ⟨hd, rfl, hp, happ⟩
    refine ⟨d, ?_, a, by cases a <;> simp [actions], h, ⟨(HookName.gen a t, h), ⟨hp, rfl, happ⟩, rfl⟩, rfl⟩
    cases withTest <;> simp [scopes] at hd ⊢ <;> omega

/-- Draw time, any choice sequence: if the user's `before_generate` hooks hand the strategy on and the strategies
    returned by `flatmap` hooks call no hooks themselves, the hook calls made while a value is drawn are, in order,
    a prefix of the non-`before_generate` stages — and ALL of them, each exactly once, when the draw is accepted. -/
theorem draw_calls_exact {α : Type} (I : Interp α) (hbg : ∀ h c st, I.bg h c st = st)
    (hq : ∀ h c v cs, (I.flat h c v cs).1 = []) (base : Strat α) (hb : ∀ cs, (base cs).1 = [])
    (xs : List (Action × Nat × Option Nat)) (cs : List Nat) :
    ((denote I xs base cs).1.map Call.key) <+: drawStages xs ∧
    ((denote I xs base cs).2.isSome = true → (denote I xs base cs).1.map Call.key = drawStages xs) := by
  have hg : Good [] base := by
    intro cs
    simp [hb, drawStages]
  simpa [denote] using good_foldl I hbg hq xs [] base hg cs

/-- "hooks of all applicable scopes are all applied to generated data", with the filters: in an accepted draw for
    operation `o` after any history, hook function `h` is called as a `filter`/`map`/`flatmap` hook with context `c`
    iff `c` is the context of `o`, `h` is registered under that name on the GLOBAL, the schema's or (if given) the
    test's dispatcher, and the filters chained on its own decorator expression admit `o`. -/
theorem draw_calls_where {α : Type} (I : Interp α) (hbg : ∀ h c st, I.bg h c st = st)
    (hq : ∀ h c v cs, (I.flat h c v cs).1 = []) (base : Strat α) (hb : ∀ cs, (base cs).1 = [])
    (nM : Nat) (disp : Nat → Nat) (ops : List Op) (mt : Nat → Nat → Bool) (withTest : Bool) (t : Target) (o : Nat)
    (cs : List Nat) (a : Action) (h : Nat) (c : Option Nat) :
    let strat := denote I (untag (stagesOf .byValue .repaired mt (run .repaired (init nM disp) ops) withTest t o)) base
    let ref := arun (ainit nM disp) ops
    (strat cs).2.isSome = true →
      ((a, h, c) ∈ (strat cs).1.map Call.key ↔
        a ≠ .beforeGenerate ∧ c = some o ∧
        ∃ d, (d = 0 ∨ d = 1 ∨ (d = 2 ∧ withTest = true)) ∧ (HookName.gen a t, h) ∈ ref.hooks d ∧
          specApplies mt (afilterOf ref h) o = true) := by
  intro strat ref hacc
  have hk := (draw_calls_exact I hbg hq base hb _ cs).2 hacc
  show (a, h, c) ∈ (strat cs).1.map Call.key ↔ _
  rw [hk, pipeline_after_history]
  simp only [drawStages, untag, List.mem_filter, List.mem_map]
  constructor
  · rintro ⟨⟨⟨d, a', h', c'⟩, hm, heq⟩, hne⟩
    cases heq
    obtain ⟨hd, hc, hp, happ⟩ := (specStages_mem _ _ _ _ _ _ _ _ _ _).1 hm
    exact ⟨by simpa using hne, hc, d, hd, hp, happ⟩
  · rintro ⟨hne, hc, d, hd, hp, happ⟩
    exact ⟨⟨(d, a, h, c), (specStages_mem _ _ _ _ _ _ _ _ _ _).2 ⟨hd, hc, hp, happ⟩, rfl⟩, by simpa using hne⟩

/-- data flow: through the harness hooks (`map`/`flatmap` hook `h` appends `h` to the value) the drawn value lists the
    value-changing stages in order — every stage receives what the previous one produced -/
theorem probe_draw_value (xs : List (Action × Nat × Option Nat)) (v : List Nat) (cs : List Nat) :
    (denote probe xs (sPure v) cs).2 = some (v ++ valueStages xs, cs) :=
  probe_foldl xs (sPure v) v (fun _ => rfl) cs

/-- `BaseSchema.dispatch_hook` (`before_init_operation`, `before_process_path`, …): a hook runs iff it is registered
    under that name on one of the applicable scopes and its own filter admits the operation; GLOBAL first, then the
    schema's, then the test's -/
theorem dispatch_all_scopes (mt : Nat → Nat → Bool) (s : St) (withTest : Bool) (n : HookName) (o d h : Nat) :
    (d, h) ∈ dispatchAll mt s withTest n (some o) ↔
      (d = 0 ∨ d = 1 ∨ (d = 2 ∧ withTest = true)) ∧ (n, h) ∈ s.hooks d ∧ specApplies mt (filterOf s h) o = true := by
  simp only [dispatchAll, List.mem_flatMap, List.mem_map]
  constructor
  · rintro ⟨d', hd', h', hm, heq⟩
    cases heq
    refine ⟨?_, (dispatch_where mt s d n o h).1 hm⟩
    cases withTest <;> simp [scopes] at hd' ⊢ <;> omega
  · rintro ⟨hd, hm⟩
    refine ⟨d, ?_, h, (dispatch_where mt s d n o h).2 hm, rfl⟩
    cases withTest <;> simp [scopes] at hd ⊢ <;> omega

/-- … and a hook dispatched without an operation (`before_process_path`) runs wherever it is registered -/
theorem dispatch_all_no_operation (mt : Nat → Nat → Bool) (s : St) (withTest : Bool) (n : HookName) (d h : Nat) :
    (d, h) ∈ dispatchAll mt s withTest n none ↔ (d = 0 ∨ d = 1 ∨ (d = 2 ∧ withTest = true)) ∧ (n, h) ∈ s.hooks d := by
  simp only [dispatchAll, dispatch, byName, shouldSkip_no_operation, List.mem_flatMap, List.mem_map, List.mem_filter,
    Bool.not_false, and_true]
  constructor
  · rintro ⟨d', hd', h', ⟨⟨n', h''⟩, ⟨hp, hn⟩, rfl⟩, heq⟩
    cases heq
    simp only [decide_eq_true_eq] at hn
    subst hn
    refine ⟨?_, hp⟩
    cases withTest <;> simp [scopes] at hd' ⊢ <;> omega
  · rintro ⟨hd, hp⟩
    refine ⟨d, ?_, h, ⟨(n, h), ⟨hp, by simp⟩, rfl⟩, rfl⟩
    cases withTest <;> simp [scopes] at hd ⊢ <;> omega

theorem dispatch_all_order (mt : Nat → Nat → Bool) (s : St) (n : HookName) (o : Option Nat) :
    (dispatchAll mt s true n o).map (·.2) = dispatch mt s 0 n o ++ dispatch mt s 1 n o ++ dispatch mt s 2 n o := by
  simp [dispatchAll, scopes, List.map_map, Function.comp_def]

/-- the F26 snapshot of `_apply_hooks` (no skip test): every registered `*_case` hook gets a stage, whatever its filter -/
theorem case_pipeline_asFound (mt : Nat → Nat → Bool) (s : St) (withTest : Bool) (o : Nat) :
    stagesOf .byValue .asFound mt s withTest .case o =
      (scopes withTest).flatMap fun d => actions.flatMap fun a =>
        (allNamed (s.hooks d) (.gen a .case)).map fun h => (d, a, h, some o) := by
  unfold stagesOf
  congr 1
  funext d
  have hs : skipsFor .asFound .case = false := rfl
  rw [hs, frameOf_resolve]
  simp [List.map_flatMap, List.map_map, kept_false, Function.comp_def]

/-- binding the hook by value is necessary: with closures over the loop variable (`lambda v: hook(context, v)`) every
    stage of a dispatcher calls the hook the loops visited LAST — here hook 1, restricted to operation 0, is called for
    operation 1 (which its filter excludes) in place of the unfiltered hook 0, and twice for operation 0 -/
theorem late_binding_applies_skipped_hook :
    let s := run .repaired (init 1 fun _ => 0)
      [.registerFn 0 0 (.gen .flatmap .case), .regApply 0 true 0, .registerFn 0 1 (.gen .flatmap .case)]
    let mt : Nat → Nat → Bool := fun f o => f == 0 && o == 0
    specApplies mt (filterOf s 0) 1 = true ∧ specApplies mt (filterOf s 1) 1 = false ∧
    stagesOf .byValue .repaired mt s false .case 1 = [(0, .flatmap, 0, some 1)] ∧
    stagesOf .byCell .repaired mt s false .case 1 = [(0, .flatmap, 1, some 1)] := by
  decide

/-- … and where both hooks match, the last one is called twice and the first one never -/
theorem late_binding_drops_earlier_hook :
    let s := run .repaired (init 1 fun _ => 0)
      [.registerFn 0 0 (.gen .flatmap .case), .regApply 0 true 0, .registerFn 0 1 (.gen .flatmap .case)]
    let mt : Nat → Nat → Bool := fun f o => f == 0 && o == 0
    stagesOf .byValue .repaired mt s false .case 0 = [(0, .flatmap, 0, some 0), (0, .flatmap, 1, some 0)] ∧
    stagesOf .byCell .repaired mt s false .case 0 = [(0, .flatmap, 1, some 0), (0, .flatmap, 1, some 0)] := by
  decide

/-- with one hook per run of the loops late binding is invisible (why single-hook tests cannot see it) -/
theorem late_binding_single_hook_same :
    let s := run .repaired (init 1 fun _ => 0) [.regApply 0 true 0, .registerFn 0 0 (.gen .flatmap .case)]
    let mt : Nat → Nat → Bool := fun f o => f == 0 && o == 0
    stagesOf .byCell .repaired mt s true .case 0 = stagesOf .byValue .repaired mt s true .case 0 ∧
    stagesOf .byCell .repaired mt s true .case 1 = stagesOf .byValue .repaired mt s true .case 1 := by
  decide

/-- non-vacuity of the pipeline statements: three scopes, four kinds, filtered and unfiltered hooks -/
example :
    let s := run .repaired (init 3 fun m => m)
      [.registerFn 2 0 (.gen .map .query), .regApply 0 true 0, .registerFn 0 1 (.gen .flatmap .query),
       .registerFn 1 2 (.gen .filter .query), .regApply 1 false 0, .registerFn 1 3 (.gen .map .query),
       .registerFn 0 4 (.gen .beforeGenerate .query), .registerFn 0 5 (.gen .map .body)]
    let mt : Nat → Nat → Bool := fun f o => f == 0 && o == 0
    stagesOf .byValue .repaired mt s true .query 0 =
      [(0, .beforeGenerate, 4, some 0), (0, .flatmap, 1, some 0), (1, .filter, 2, some 0), (2, .map, 0, some 0)] ∧
    stagesOf .byValue .repaired mt s true .query 1 =
      [(0, .beforeGenerate, 4, some 1), (1, .filter, 2, some 1), (1, .map, 3, some 1), (2, .map, 0, some 1)] ∧
    stagesOf .byValue .repaired mt s false .query 1 =
      [(0, .beforeGenerate, 4, some 1), (1, .filter, 2, some 1), (1, .map, 3, some 1)] := by
  decide

example :
    let xs : List (Action × Nat × Option Nat) :=
      [(.beforeGenerate, 4, some 1), (.filter, 2, some 1), (.map, 3, some 1), (.flatmap, 0, some 1)]
    denote probe xs (sPure []) [7] =
      ([⟨.filter, 2, some 1, []⟩, ⟨.map, 3, some 1, []⟩, ⟨.flatmap, 0, some 1, [3]⟩], some ([3, 0], [7])) := by
  decide

/-- a rejecting `filter` hook: the draw is rejected and the later stages are not reached (prefix case of
    `draw_calls_exact`) -/
example :
    let I : Interp (List Nat) := { probe with filt := fun _ _ _ => false }
    denote I [(.filter, 2, some 1), (.map, 3, some 1)] (sPure []) [] = ([⟨.filter, 2, some 1, []⟩], none) := by
  decide

/-! ### registration happens on the dispatcher of the `register` used, unregistration removes exactly that hook -/

/-- `register(hook)` appends (name, hook) to the dispatcher its `register` belongs to and touches no other
    dispatcher; a call that raises registers nothing (all variants) -/
theorem registerFn_scope (v : V25) (s : St) (m h : Nat) (n : HookName) :
    (step v s (.registerFn m h n)).1.hooks =
      if (step v s (.registerFn m h n)).2 = .ok then upd s.hooks (s.mDisp m) (s.hooks (s.mDisp m) ++ [(n, h)])
      else s.hooks := by
  by_cases hm : m < s.nM
  · cases v <;> simp only [step, hm, if_true, freshSet, reduceCtorEq, if_false] <;>
      exact ite_pair_hooks _ _ _ _ _ rfl rfl
  · simp [step, hm]

/-- the by-name form registers under the decorator's name on the decorator's dispatcher -/
theorem decorate_scope (v : V25) (s : St) (d h : Nat) :
    (step v s (.decorate d h)).1.hooks =
      if (step v s (.decorate d h)).2 = .ok then
        upd s.hooks (s.mDisp (s.dM d)) (s.hooks (s.mDisp (s.dM d)) ++ [(s.dName d, h)])
      else s.hooks := by
  by_cases hd : (d < s.nD && !s.dDead d) = true
  · cases v <;> simp only [step, hd, if_true] <;> exact ite_pair_hooks _ _ _ _ _ rfl rfl
  · simp only [step, hd]; simp

theorem unregister_exact (v : V25) (s : St) (disp h : Nat) :
    let s' := (step v s (.unregister disp h)).1
    (∀ p, p ∈ s'.hooks disp ↔ p ∈ s.hooks disp ∧ p.2 ≠ h) ∧
    (s'.hooks disp).Sublist (s.hooks disp) ∧
    (∀ d, d ≠ disp → s'.hooks d = s.hooks d) ∧
    (∀ h', filterOf s' h' = filterOf s h') := by
  refine ⟨?_, ?_, ?_, ?_⟩
  · intro p; simp [step, List.mem_filter]
  · simp only [step, upd_same]; exact List.filter_sublist
  · intro d hd; simp [step, upd_other _ _ _ _ hd]
  · intro h'; rfl

theorem unregisterAll_exact (v : V25) (s : St) (disp : Nat) :
    let s' := (step v s (.unregisterAll disp)).1
    s'.hooks disp = [] ∧ (∀ d, d ≠ disp → s'.hooks d = s.hooks d) := by
  refine ⟨by simp [step], ?_⟩
  intro d hd; simp [step, upd_other _ _ _ _ hd]

/-- after `unregister` the hook is applied nowhere through that dispatcher, every other hook exactly as before -/
theorem unregister_applied (v : V25) (mt : Nat → Nat → Bool) (s : St) (disp h : Nat) (t : Target) (o : Nat)
    (a : Action) (h' : Nat) :
    (a, h') ∈ applyToContainer mt (step v s (.unregister disp h)).1 disp t (some o) ↔
      (a, h') ∈ applyToContainer mt s disp t (some o) ∧ h' ≠ h := by
  rw [applied_where, applied_where, (unregister_exact v s disp h).2.2.2 h', (unregister_exact v s disp h).1]
  constructor
  · rintro ⟨⟨hp, hne⟩, happ⟩; exact ⟨⟨hp, happ⟩, hne⟩
  · rintro ⟨⟨hp, happ⟩, hne⟩; exact ⟨⟨hp, hne⟩, happ⟩

/-! ### end to end (repaired `to_filterable_hook`): where a function-form hook is applied depends on its own chain only -/

theorem fn_hook_applied_iff (nM : Nat) (disp : Nat → Nat) (pre post : List Op) (m h : Nat) (a : Action) (t : Target)
    (mt : Nat → Nat → Bool) (o d : Nat) (hm : m < nM) (hpost : noReReg h post = true) :
    let s := run .repaired (init nM disp) (pre ++ .registerFn m h (.gen a t) :: post)
    (a, h) ∈ applyToContainer mt s d t (some o) ↔
      (HookName.gen a t, h) ∈ s.hooks d ∧ (addAll FS.empty (pendingWrites m [] pre)).matches mt o = true := by
  intro s
  rw [applied_where, own_filter_fn nM disp pre post m h (.gen a t) hm rfl hpost]
  rfl

/-! ### C19_auth_own_filter: every auth handle owns a fresh FilterSet -/

/-- For ALL histories: the set behind the handle returned by `register()` / `apply(cls)` / `set_from_requests(auth)`
    holds exactly the filters chained on that handle afterwards — nothing chained on any other handle. -/
theorem auth_own_filter (pre post : List AuthOp) (op : AuthOp) (hc : isCreate op = true) :
    (authRun authInit pre).nH < (authRun authInit (pre ++ op :: post)).nH ∧
    (authRun authInit (pre ++ op :: post)).heap ((authRun authInit (pre ++ op :: post)).hSet (authRun authInit pre).nH)
      = addAll FS.empty (handleWrites (authRun authInit pre).nH post) := by
  have hinv := authRun_inv authInit pre ainv_init
  rw [authRun_append, authRun]
  generalize authRun authInit pre = s1 at hinv
  have h2 : s1.nH < (authStep s1 op).1.nH ∧ (authStep s1 op).1.heap ((authStep s1 op).1.hSet s1.nH) = FS.empty := by
    cases op <;> simp [isCreate] at hc <;> simp [authStep, newHandle]
  have hinv2 := authStep_inv s1 op hinv
  generalize (authStep s1 op).1 = s2 at h2 hinv2
  refine ⟨Nat.lt_of_lt_of_le h2.1 (authRun_nH_le s2 post), ?_⟩
  rw [authRun_heap s2 post s1.nH hinv2 h2.1, h2.2]

/-- `handle(provider_class)` appends ONE provider to the handle's own storage; it is selective iff filters were chained
    on the handle before, and then it carries the handle's own set (`_set_provider`) -/
theorem auth_provider_filter (s : AuthSt) (hd x : Nat) (hh : hd < s.nH) (hk : s.hKind hd = .register) :
    (authStep s (.decorate hd x)).1.providers (s.hStore hd) =
      s.providers (s.hStore hd) ++
        [⟨x, if (s.heap (s.hSet hd)).isEmpty then none else some (s.hSet hd)⟩] ∧
    ∀ st, st ≠ s.hStore hd → (authStep s (.decorate hd x)).1.providers st = s.providers st := by
  constructor
  · simp only [authStep, hh, if_true, hk, mkProvider, upd_same]
    split <;> rfl
  · intro st hst
    simp [authStep, hh, hk, upd_other _ _ _ _ hst]

/-- `AuthStorage.set`: the provider applied to an operation is the FIRST one of the storage whose own filters admit
    it — a later provider is applied exactly where it matches and no earlier one does -/
theorem auth_set_first_match (mt : Nat → Nat → Bool) (s : AuthSt) (store o : Nat) (p : Provider) :
    authSet mt s store o = some p ↔
      providerGets mt s p o = true ∧
      ∃ pre post, s.providers store = pre ++ p :: post ∧ ∀ q ∈ pre, providerGets mt s q o = false := by
  unfold authSet
  rw [List.find?_eq_some_iff_append]
  constructor
  · rintro ⟨hp, pre, post, heq, hall⟩
    exact ⟨hp, pre, post, heq, fun q hq => by simpa using hall q hq⟩
  · rintro ⟨hp, pre, post, heq, hall⟩
    exact ⟨hp, pre, post, heq, fun q hq => by simp [hall q hq]⟩

theorem auth_set_none (mt : Nat → Nat → Bool) (s : AuthSt) (store o : Nat) :
    authSet mt s store o = none ↔ ∀ p ∈ s.providers store, providerGets mt s p o = false := by
  unfold authSet
  simp [List.find?_eq_none]

/-- a provider without filters is applied everywhere, a selective one exactly where its set matches -/
theorem auth_provider_gets (mt : Nat → Nat → Bool) (s : AuthSt) (p : Provider) (o : Nat) :
    providerGets mt s p o = specApplies mt (p.filt.map s.heap) o := by
  unfold providerGets specApplies
  cases p.filt <;> rfl

/-- scope: a provider applied through `set_on_case` comes from the test's own storage if `apply` attached one, otherwise
    from the schema's storage if that has providers, otherwise from the global storage — and it admits the operation -/
theorem setOnCase_scope (mt : Nat → Nat → Bool) (s : AuthSt) (test : Option Nat) (o : Nat) (p : Provider)
    (h : setOnCase mt s test o = some p) :
    providerGets mt s p o = true ∧
    ((test.bind s.testStore = some p) ∨
     (test.bind s.testStore = none ∧ s.providers 1 ≠ [] ∧ p ∈ s.providers 1) ∨
     (test.bind s.testStore = none ∧ s.providers 1 = [] ∧ p ∈ s.providers 0)) := by
  unfold setOnCase at h
  cases ht : test.bind s.testStore with
  | some q =>
    simp only [ht] at h
    by_cases hg : providerGets mt s q o = true
    · simp only [hg, if_true] at h
      cases h
      exact ⟨hg, Or.inl rfl⟩
    · simp [hg] at h
  | none =>
    simp only [ht] at h
    cases h1 : s.providers 1 with
    | cons q qs =>
      simp only [h1, List.isEmpty_cons, Bool.not_false, if_true] at h
      have := (auth_set_first_match mt s 1 o p).1 h
      obtain ⟨hg, pre, post, heq, _⟩ := this
      refine ⟨hg, Or.inr (Or.inl ⟨rfl, by simp, ?_⟩)⟩
      rw [← h1, heq]; simp
    | nil =>
      simp only [h1, List.isEmpty_nil, Bool.not_true] at h
      cases h0 : s.providers 0 with
      | nil => simp [h0] at h
      | cons q qs =>
        simp only [h0, List.isEmpty_cons, Bool.not_false, if_true, Bool.false_eq_true, if_false] at h
        have := (auth_set_first_match mt s 0 o p).1 h
        obtain ⟨hg, pre, post, heq, _⟩ := this
        refine ⟨hg, Or.inr (Or.inr ⟨rfl, rfl, ?_⟩)⟩
        rw [← h0, heq]; simp

/-! ### non-vacuity of the auth statements -/

example : (authRun authInit [.register 0, .register 1]).nH = 2 ∧
    (authRun authInit ([.register 0, .handleApply 0 true 5] ++ AuthOp.register 1 ::
      [.handleApply 1 true 0, .handleApply 0 true 7, .handleApply 1 false 2, .decorate 1 3])).providers 1 = [⟨3, some 1⟩] ∧
    (authRun authInit ([.register 0, .handleApply 0 true 5] ++ AuthOp.register 1 ::
      [.handleApply 1 true 0, .handleApply 0 true 7, .handleApply 1 false 2, .decorate 1 3])).heap 1 = ⟨[0], [2]⟩ := by decide

example : setOnCase (fun f o => f == o) (authRun authInit [.register 0, .handleApply 0 true 1, .decorate 0 7]) none 1
    = some ⟨7, some 0⟩ := by decide

/-- non-vacuity of `fn_hook_applied_iff`: hook 1 restricted to filter 1 (operations 2, 3) is applied to 2, not to 0 -/
example :
    let s := run .repaired (init 2 fun m => m)
      ([.regApply 1 true 0, .registerFn 1 0 (.gen .map .query), .regApply 1 true 1] ++
        .registerFn 1 1 (.gen .map .query) :: [.registerFn 1 2 (.gen .map .query)])
    let mt : Nat → Nat → Bool := fun f o => (f == 0 && o < 2) || (f == 1 && o ≥ 2)
    (Action.map, 1) ∈ applyToContainer mt s 1 .query (some 2) ∧ (Action.map, 1) ∉ applyToContainer mt s 1 .query (some 0) := by
  decide

end SV.Props.C19
