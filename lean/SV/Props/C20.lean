/-
  C20 — GraphQL requests target their field; the operations offered and the selected/total counts are exactly the
  root fields passing the filters.  Property theorems only (helpers: SV/Proofs/C20.lean).
  Argument values: every node a built-in scalar strategy of `get_extra_scalar_strategies` can yield is an acceptable
  literal of its scalar (section "argument values"); under hypothesis-graphql's leaf contract so is every leaf of such a
  type in a document.
  What is *not* here (validated by sampling in harness/corr/c20.py): the documents hypothesis-graphql draws are
  syntactically valid and pass `graphql.validate`; values of GraphQL's own scalars (Int, Float, String, ID, Boolean).
-/
import SV.Proofs.C20
import SV.Proofs.C20Scalars
import SV.Proofs.C20Derive

namespace SV.Props.C20
open SV.Model.C20 SV.Spec.C20 SV.Proofs.C20

/-! ### selection -/

/-- `FilterSet.match` (exclude loop with early exit, then includes) decides "passes the filters". Holds for every
    filter set, including arbitrary user functions (`Matcher.func`). -/
theorem filterSet_match_exact (F : FilterSet) (v : OpView) : F.matchView v = passes F v :=
  matchView_eq_passes F v

/-- `get_all_operations` offers exactly the root query fields, then the root mutation fields, that pass the filters —
    same order, same multiplicity, nothing else. -/
theorem offered_exact (c : Client) (F : FilterSet) (bp : Name) :
    getAllOperations c F bp = (rootFields c).filter (selected F bp) := by
  unfold getAllOperations rootFields
  rw [opsOfRoot_eq, opsOfRoot_eq, List.filter_append]

/-- membership form -/
theorem offered_iff (c : Client) (F : FilterSet) (bp : Name) (o : Op) :
    o ∈ getAllOperations c F bp ↔ o ∈ rootFields c ∧ selected F bp o = true := by
  rw [offered_exact, List.mem_filter]

/-- `_measure_statistic` (which walks the raw introspection JSON) reports total = number of root fields of the
    loaded schema and selected = number of operations `get_all_operations` offers, for every well-formed
    introspection result and every filter set. -/
theorem statistic_counts (r : Raw) (F : FilterSet) (bp : Name) (hw : wellFormed r) :
    measureStatistic r F bp =
      ⟨(rootFields (client r)).length, (getAllOperations (client r) F bp).length⟩ := by
  obtain ⟨h1, h2⟩ := hw
  unfold measureStatistic
  rw [statRoot_eq F bp r.types .query r.queryType h1 h2, statRoot_eq F bp r.types .mutation r.mutationType h1 h2]
  simp [rootFields, getAllOperations, client]

/-- selected ≤ total, whatever the filters -/
theorem statistic_selected_le_total (r : Raw) (F : FilterSet) (bp : Name) (hw : wellFormed r) :
    (measureStatistic r F bp).selected ≤ (measureStatistic r F bp).total := by
  rw [statistic_counts r F bp hw, offered_exact]
  exact List.length_filter_le _ _

private def s (x : String) : Name := x.toList

/-- a raw schema listing the type `Query` twice (not a well-formed introspection result) -/
def dupTypeRaw : Raw :=
  ⟨some (s "Query"), none, [⟨s "Query", [s "a", s "b"]⟩, ⟨s "Query", [s "a"]⟩]⟩

/-- well-formedness is needed: with a duplicated type entry the statistic counts 3 operations, 1 is offered -/
theorem statistic_counts_needs_wellFormed :
    measureStatistic dupTypeRaw ⟨[], []⟩ (s "/graphql") = ⟨3, 3⟩ ∧
    (getAllOperations (client dupTypeRaw) ⟨[], []⟩ (s "/graphql")).length = 1 := by
  decide

/-- non-vacuity of `statistic_counts`: a well-formed schema with both roots, a shared field name and a filter -/
def demoRaw : Raw :=
  ⟨some (s "Query"), some (s "Mutation"),
   [⟨s "Query", [s "dup", s "a"]⟩, ⟨s "User", [s "id"]⟩, ⟨s "Mutation", [s "dup", s "m"]⟩]⟩

def demoFilter : FilterSet := ⟨[[.regex .label false false (s "dup")]], [[.value .label (s "Mutation.dup")]]⟩

example : wellFormed demoRaw ∧ measureStatistic demoRaw demoFilter (s "/graphql") = ⟨4, 1⟩ ∧
    getAllOperations (client demoRaw) demoFilter (s "/graphql") = [⟨.query, s "Query", s "dup"⟩] := by
  refine ⟨⟨?_, ?_⟩, ?_, ?_⟩
  · unfold namesNodup; decide
  · unfold fieldsNodup; decide
  · decide
  · decide

/-! ### lookup `schema[T][f]` -/

/-- Repaired cache (keyed by root type name and field name): for **every history** of lookups on one schema object,
    every answer is the history-independent `specLookup` — the cache is invisible. -/
theorem lookup_repaired_refines (c : Client) (qs : List (Name × Name)) :
    runLookups .repaired c Cache.empty qs = qs.map (specLookup c) := by
  suffices h : ∀ st, Inv .repaired c st → runLookups .repaired c st qs = qs.map (specLookup c) from
    h _ (inv_empty _ c)
  induction qs with
  | nil => intro st _; rfl
  | cons q qs ih =>
    intro st hi
    obtain ⟨h1, h2⟩ := lookup_repaired_step c st q hi
    simp only [runLookups, List.map_cons, h1, ih _ h2]

/-- The full statement for the cache as found (keyed by the field name only). -/
def lookup_asFound_full : Prop :=
  ∀ (c : Client) (qs : List (Name × Name)), runLookups .asFound c Cache.empty qs = qs.map (specLookup c)

def demoClient : Client := client demoRaw

/-- F27: after `schema["Mutation"]["dup"]`, `schema["Query"]["dup"]` is `Mutation.dup`; and after
    `schema["Mutation"]["m"]`, `schema["Query"]["m"]` is `Mutation.m` although `Query` has no field `m`. -/
theorem lookup_asFound_witness :
    runLookups .asFound demoClient Cache.empty [(s "Mutation", s "dup"), (s "Query", s "dup")] =
      [.ok ⟨.mutation, s "Mutation", s "dup"⟩, .ok ⟨.mutation, s "Mutation", s "dup"⟩] ∧
    [(s "Mutation", s "dup"), (s "Query", s "dup")].map (specLookup demoClient) =
      [.ok ⟨.mutation, s "Mutation", s "dup"⟩, .ok ⟨.query, s "Query", s "dup"⟩] ∧
    runLookups .asFound demoClient Cache.empty [(s "Mutation", s "m"), (s "Query", s "m")] =
      [.ok ⟨.mutation, s "Mutation", s "m"⟩, .ok ⟨.mutation, s "Mutation", s "m"⟩] ∧
    specLookup demoClient (s "Query", s "m") = .fieldNotFound := by
  decide

theorem lookup_asFound_full_false : ¬ lookup_asFound_full := by
  intro h
  have := h demoClient [(s "Mutation", s "dup"), (s "Query", s "dup")]
  revert this
  decide

/-- What the cache as found does guarantee: when the two root types share no field name and every lookup of the
    history names an existing field, every answer is right. -/
theorem lookup_asFound_partial (c : Client) (hd : rootsDisjoint c) (qs : List (Name × Name))
    (hhit : ∀ q ∈ qs, ∃ op, specLookup c q = .ok op) :
    runLookups .asFound c Cache.empty qs = qs.map (specLookup c) := by
  suffices h : ∀ st, Inv .asFound c st → runLookups .asFound c st qs = qs.map (specLookup c) from
    h _ (inv_empty _ c)
  induction qs with
  | nil => intro st _; rfl
  | cons q qs ih =>
    intro st hi
    obtain ⟨op, hop⟩ := hhit q (by simp)
    obtain ⟨h1, h2⟩ := lookup_asFound_step c hd st q op hi hop
    have ih' := ih (fun q' hq' => hhit q' (by simp [hq'])) _ h2
    simp only [runLookups, List.map_cons, h1, hop, ih']

/-- non-vacuity of `lookup_asFound_partial` -/
def disjClient : Client := ⟨some ⟨s "Q", [s "a"]⟩, some ⟨s "M", [s "b"]⟩⟩

example : rootsDisjoint disjClient ∧ specLookup disjClient (s "M", s "b") = .ok ⟨.mutation, s "M", s "b"⟩ := by
  refine ⟨?_, by decide⟩
  intro qt mt f hq hm h1 h2
  simp only [disjClient, Option.some.injEq] at hq hm
  subst hq hm
  simp only [List.mem_singleton] at h1 h2
  rw [h1] at h2
  revert h2
  decide

/-- On a fresh schema object both variants answer the first lookup correctly (so F27 needs a history). -/
theorem first_lookup_exact (v : Variant) (c : Client) (q : Name × Name) :
    (lookup v c Cache.empty q).2 = specLookup c q := by
  unfold lookup specLookup getOperationMap
  simp only [Cache.empty, assocGet]
  cases hf : findRoot c q.1 with
  | none => rfl
  | some m =>
    simp only [initOperation, assocGet]
    by_cases hc : q.2 ∈ m.type.fields <;> simp [hc]

/-! ### the strategy request -/

/-- The answer `schema[T][f]` (repaired) after any history is an operation named (T, f) whose field exists on the
    root type of its kind, and `graphql_cases` asks hypothesis-graphql's factory of that kind for exactly `[f]`. -/
theorem lookup_repaired_targets {β : Type} (c : Client) (qs : List (Name × Name)) (q : Name × Name) (op : Op)
    (cfg : GenConfig) (extra custom : List (Name × β))
    (h : (runLookups .repaired c Cache.empty (qs ++ [q])).getLast? = some (.ok op)) :
    op.typeName = q.1 ∧ op.field = q.2 ∧ wellTargeted c op ∧
    (strategyCall op cfg extra custom).factory = op.root ∧ (strategyCall op cfg extra custom).fields = [q.2] := by
  rw [lookup_repaired_refines] at h
  simp only [List.map_append, List.map_cons, List.map_nil, List.getLast?_append, List.getLast?_singleton,
    Option.some_or, Option.some.injEq] at h
  obtain ⟨h1, h2, h3⟩ := specLookup_ok c q op h
  exact ⟨h1, h2, h3, rfl, by simp [strategyCall, h2]⟩

/-- Every operation offered by `get_all_operations` is well targeted, and its strategy request names its own root
    kind and its own field only. -/
theorem offered_targets {β : Type} (c : Client) (F : FilterSet) (bp : Name) (o : Op)
    (cfg : GenConfig) (extra custom : List (Name × β)) (h : o ∈ getAllOperations c F bp) :
    wellTargeted c o ∧ (strategyCall o cfg extra custom).factory = o.root ∧
    (strategyCall o cfg extra custom).fields = [o.field] := by
  refine ⟨?_, rfl, rfl⟩
  rw [offered_iff] at h
  obtain ⟨hm, _⟩ := h
  unfold rootFields at hm
  rw [List.mem_append] at hm
  rcases hm with hm | hm
  · cases hq : c.query with
    | none => simp [hq, fieldsOf] at hm
    | some t =>
      simp only [hq, fieldsOf, List.mem_map] at hm
      obtain ⟨f, hf, rfl⟩ := hm
      exact ⟨t, by simp [rootType, hq], rfl, hf⟩
  · cases hq : c.mutation with
    | none => simp [hq, fieldsOf] at hm
    | some t =>
      simp only [hq, fieldsOf, List.mem_map] at hm
      obtain ⟨f, hf, rfl⟩ := hm
      exact ⟨t, by simp [rootType, hq], rfl, hf⟩

/-- Index completeness: every operation the schema offers can be fetched back as `schema[type][field]`, after any
    history, and it is the very same operation (root kind included) when the two root types are different types. -/
theorem offered_lookup (c : Client) (F : FilterSet) (bp : Name) (o : Op) (hn : rootNamesDistinct c)
    (h : o ∈ getAllOperations c F bp) (qs : List (Name × Name)) :
    (runLookups .repaired c Cache.empty (qs ++ [(o.typeName, o.field)])).getLast? = some (.ok o) := by
  rw [lookup_repaired_refines]
  rw [offered_iff] at h
  simp [specLookup_of_rootField c hn o h.1]

/-- non-vacuity of `offered_lookup` -/
example : rootNamesDistinct demoClient ∧
    (⟨.mutation, s "Mutation", s "dup"⟩ : Op) ∈ getAllOperations demoClient ⟨[], []⟩ (s "/graphql") := by
  refine ⟨?_, by decide⟩
  intro qt mt hq hm
  have hq' : qt = ⟨s "Query", [s "dup", s "a"]⟩ := by
    have : demoClient.query = some ⟨s "Query", [s "dup", s "a"]⟩ := by decide
    rw [this] at hq; exact (Option.some.inj hq).symm
  have hm' : mt = ⟨s "Mutation", [s "dup", s "m"]⟩ := by
    have : demoClient.mutation = some ⟨s "Mutation", [s "dup", s "m"]⟩ := by decide
    rw [this] at hm; exact (Option.some.inj hm).symm
  subst hq' hm'
  decide

/-- A `name="Type.field"` include filter offers exactly the root fields of that type with that field name
    (GraphQL names contain no dot, so the label determines type and field). -/
theorem name_filter_exact (c : Client) (bp T f : Name) (o : Op)
    (hdot : ∀ o' ∈ rootFields c, dotFree o'.typeName) (hT : dotFree T) :
    o ∈ getAllOperations c ⟨[[.value .label (mkLabel T f)]], []⟩ bp ↔
      o ∈ rootFields c ∧ o.typeName = T ∧ o.field = f := by
  rw [offered_iff, selected_by_name]
  constructor
  · rintro ⟨hm, hl⟩
    have hl' : mkLabel o.typeName o.field = mkLabel T f := by simpa [Op.label] using hl
    exact ⟨hm, mkLabel_inj _ _ _ _ (hdot o hm) hT hl'⟩
  · rintro ⟨hm, h1, h2⟩
    exact ⟨hm, by simp [Op.label, h1, h2]⟩

/-- non-vacuity of `name_filter_exact` -/
example : dotFree (s "Query") ∧ dotFree (s "Mutation") ∧
    getAllOperations demoClient ⟨[[.value .label (mkLabel (s "Query") (s "dup"))]], []⟩ (s "/graphql") =
      [⟨.query, s "Query", s "dup"⟩] := by
  refine ⟨?_, ?_, by decide⟩ <;> (unfold dotFree; decide)

/-- Under hypothesis-graphql's targeting contract, whatever document the requested strategy draws targets exactly the
    operation the strategy was built for (one operation of its kind, selecting only its field). -/
theorem document_targets_under_contract {β : Type} (gen : Root → List Name → DocSummary → Prop)
    (hc : GenContract gen) (op : Op) (cfg : GenConfig) (extra custom : List (Name × β)) (d : DocSummary)
    (h : gen (strategyCall op cfg extra custom).factory (strategyCall op cfg extra custom).fields d) :
    targets op d = true := by
  obtain ⟨sels, hd, hne, hall⟩ := hc _ _ d h
  subst hd
  have hall' : ∀ x ∈ sels, x = some op.field := by
    intro x hx
    obtain ⟨f, hf, hxf⟩ := hall x hx
    simp only [strategyCall, List.mem_singleton] at hf
    rw [hxf, hf]
  simp only [targets, strategyCall, beq_self_eq_true, Bool.true_and, Bool.and_eq_true, Bool.not_eq_true',
    List.isEmpty_eq_false_iff, List.all_eq_true, beq_iff_eq]
  exact ⟨hne, hall'⟩

/-- non-vacuity: a generator meeting the contract -/
example : GenContract (fun r fs d => ∃ f ∈ fs, d = [(some r, [some f, some f])]) := by
  intro r fs d ⟨f, hf, hd⟩
  exact ⟨[some f, some f], hd, by simp, by intro x hx; exact ⟨f, hf, by simpa using hx⟩⟩

/-- generation settings reach the factory unchanged -/
theorem settings_passed {β : Type} (op : Op) (cfg : GenConfig) (extra custom : List (Name × β)) :
    (strategyCall op cfg extra custom).allowX00 = cfg.allowX00 ∧
    (strategyCall op cfg extra custom).allowNull = cfg.allowNull ∧
    (strategyCall op cfg extra custom).codec = cfg.codec := ⟨rfl, rfl, rfl⟩

/-- `{**extra, **CUSTOM_SCALARS}`: a registered custom scalar always wins over the built-in of the same name, every
    other built-in stays available, and nothing else appears. -/
theorem scalars_lookup {β : Type} (op : Op) (cfg : GenConfig) (extra custom : List (Name × β)) (n : Name) :
    assocGet n (strategyCall op cfg extra custom).scalars =
      match assocGet n custom with
      | some y => some y
      | none => assocGet n extra := by
  exact assocGet_dictMerge n extra custom


/-! ### argument values: the built-in scalar strategies -/

/-- `nodes.Int`: the node made from a Python `int` carries a GraphQL IntValue literal (`-?(0|[1-9][0-9]*)`) that
    reads back as the same integer — for every integer. -/
theorem int_node_reads_back (i : Int) : isIntLiteral (intText i) = true ∧ intValue (intText i) = i :=
  intText_literal i

/-- Over the whole family `st.integers(min_value=lo, max_value=hi).map(nodes.Int)`: the strategy yields only acceptable
    `Long` literals **iff** its range is empty or lies inside [-2⁶³, 2⁶³-1]. -/
theorem ints_safe_for_long_iff (lo hi : Option Int) :
    SafeFor .long (.ints lo hi) ↔ intsWithinLong lo hi = true := by
  constructor
  · intro h
    cases hw : intsWithinLong lo hi with
    | true => rfl
    | false =>
      obtain ⟨h1, h2⟩ := longWitness_spec lo hi hw
      have := h _ _ h1
      rw [h2] at this
      exact Bool.noConfusion this
  · exact safeFor_long_of_within lo hi

/-- … and when it does not, `longWitness lo hi` is a concrete draw of the strategy whose node is not acceptable. -/
theorem ints_unsafe_witness (lo hi : Option Int) (h : intsWithinLong lo hi = false) :
    render (.ints lo hi) (.int (longWitness lo hi)) = some (.int (intText (longWitness lo hi))) ∧
    acceptable .long (.int (intText (longWitness lo hi))) = false :=
  longWitness_spec lo hi h

/-- non-vacuity of both directions: the range as found is safe; one more at the top (or one less at the bottom, or
    no bound) is not, with the failing draw -/
example : intsWithinLong (some longMin) (some longMax) = true ∧
    intsWithinLong (some longMin) (some (longMax + 1)) = false ∧
    longWitness (some longMin) (some (longMax + 1)) = 9223372036854775808 ∧
    intsWithinLong (some (longMin - 1)) (some longMax) = false ∧
    longWitness (some (longMin - 1)) (some longMax) = -9223372036854775809 ∧
    intsWithinLong none none = false := by decide

/-- the spec names every built-in scalar -/
theorem extra_scalars_named : ∀ p ∈ extraScalars, (Scalar.ofName p.1).isSome = true := by decide

/-- `get_extra_scalar_strategies`: each of the nine built-in strategies — Date, Time, DateTime, IP, IPv4, IPv6, BigInt,
    Long, UUID — yields only acceptable literals of the scalar it is registered for, whatever the base strategy draws
    inside its support. -/
theorem extra_scalars_safe (name : Name) (g : ScalarGen) (sc : Scalar)
    (h : (name, g) ∈ extraScalars) (hs : Scalar.ofName name = some sc) : SafeFor sc g := by
  simp only [extraScalars, List.mem_cons, Prod.mk.injEq, List.not_mem_nil, or_false] at h
  rcases h with ⟨rfl, rfl⟩ | ⟨rfl, rfl⟩ | ⟨rfl, rfl⟩ | ⟨rfl, rfl⟩ | ⟨rfl, rfl⟩ | ⟨rfl, rfl⟩ | ⟨rfl, rfl⟩ |
    ⟨rfl, rfl⟩ | ⟨rfl, rfl⟩
  · cases Option.some.inj (hs.symm.trans (by decide : _ = some Scalar.date)); exact safeFor_dates
  · cases Option.some.inj (hs.symm.trans (by decide : _ = some Scalar.time)); exact safeFor_times
  · cases Option.some.inj (hs.symm.trans (by decide : _ = some Scalar.dateTime)); exact safeFor_dateTimes
  · cases Option.some.inj (hs.symm.trans (by decide : _ = some Scalar.ip)); exact safeFor_ip
  · cases Option.some.inj (hs.symm.trans (by decide : _ = some Scalar.ipv4)); exact safeFor_ipv4
  · cases Option.some.inj (hs.symm.trans (by decide : _ = some Scalar.ipv6)); exact safeFor_ipv6
  · cases Option.some.inj (hs.symm.trans (by decide : _ = some Scalar.bigInt)); exact safeFor_bigInt none none
  · cases Option.some.inj (hs.symm.trans (by decide : _ = some Scalar.long))
    exact safeFor_long_of_within _ _ (by decide)
  · cases Option.some.inj (hs.symm.trans (by decide : _ = some Scalar.uuid)); exact safeFor_uuids

/-- non-vacuity: the supports are inhabited at their extremes (and the nodes are the expected texts) -/
example : render (.ints (some longMin) (some longMax)) (.int longMax) = some (.int "9223372036854775807".toList) ∧
    render (.ints (some longMin) (some longMax)) (.int (longMax + 1)) = none ∧
    render .dates (.date 9999 12 31) = some (.str "9999-12-31".toList) ∧
    render .dates (.date 1900 2 29) = none ∧
    render .times (.time 23 59 59 999999) = some (.str "23:59:59.999999Z".toList) ∧
    render .dateTimes (.dateTime 1 1 1 0 0 0 0) = some (.str "0001-01-01T00:00:00Z".toList) ∧
    render (.ips none) (.ip4 4294967295) = some (.str "255.255.255.255".toList) ∧
    render (.ips (some .v6)) (.ip6 (2 ^ 112 + 2 ^ 48)) = some (.str "1::1:0:0:0".toList) ∧
    render .uuids (.uuid 1) = some (.str "00000000-0000-0000-0000-000000000001".toList) := by
  decide +kernel

/-- the membership test the correspondence uses (`inSupport`) only accepts nodes the modelled strategy can yield, and
    accepts every node of an integer strategy -/
theorem inSupport_exact_on_ints (g : ScalarGen) (v : ValueNode) (lo hi : Option Int) (n : Int) :
    (inSupport g v = true → ∃ d, render g d = some v) ∧
    (inRange lo hi n = true → inSupport (.ints lo hi) (.int (intText n)) = true) :=
  ⟨inSupport_sound g v, inSupport_ints lo hi n⟩

/-- What reaches a document.  For a scalar type named `name` that is a built-in and for which no custom strategy is
    registered, `graphql_cases` passes the built-in strategy; under hypothesis-graphql's leaf contract (a leaf of a
    custom scalar type is a value of the passed strategy, `null` only where the type is nullable and nulls are
    enabled, or the schema's default) every such leaf without a schema default is an acceptable literal of the scalar,
    or a permitted `null`. -/
theorem builtin_leaf_acceptable (leaf : ScalarGen → Bool → Option ValueNode → ValueNode → Prop)
    (hc : LeafContract leaf) (op : Op) (cfg : GenConfig) (custom : List (Name × ScalarGen))
    (name : Name) (g : ScalarGen) (sc : Scalar)
    (hreg : assocGet name custom = none)
    (hg : assocGet name (strategyCall op cfg extraScalars custom).scalars = some g)
    (hs : Scalar.ofName name = some sc) (nullable : Bool) (v : ValueNode)
    (hl : leaf g (nullable && cfg.allowNull) none v) :
    acceptable sc v = true ∨ (v = .null ∧ nullable = true ∧ cfg.allowNull = true) := by
  rw [scalars_lookup, hreg] at hg
  have hm : (name, g) ∈ extraScalars := assocGet_mem name g extraScalars hg
  rcases hc g _ none v hl with ⟨d, hd⟩ | ⟨hn, hv⟩ | hd
  · exact Or.inl (extra_scalars_safe name g sc hm hs d v hd)
  · simp only [Bool.and_eq_true] at hn
    exact Or.inr ⟨hv, hn.1, hn.2⟩
  · exact absurd hd (by simp)

/-- non-vacuity: a leaf relation meeting the contract, and a built-in that is looked up while another is overridden -/
example : LeafContract (fun g nullable dflt v => (∃ d, render g d = some v) ∨ (nullable = true ∧ v = .null) ∨
    dflt = some v) := fun _ _ _ _ h => h

example : assocGet "Long".toList (strategyCall ⟨.query, "Query".toList, "f".toList⟩ ⟨true, false, none⟩ extraScalars
      [("Date".toList, ScalarGen.uuids)]).scalars = some (.ints (some longMin) (some longMax)) ∧
    assocGet "Date".toList (strategyCall ⟨.query, "Query".toList, "f".toList⟩ ⟨true, false, none⟩ extraScalars
      [("Date".toList, ScalarGen.uuids)]).scalars = some .uuids := by
  decide

/-- `schemathesis.graphql.scalar(name, strategy)`: a successful registration makes exactly that strategy the one
    `graphql_cases` passes for `name` (also over a built-in of the same name) and changes nothing for any other
    scalar; it succeeds iff the name is a string and the second argument a strategy. -/
theorem register_scalar_effect {β : Type} (custom c' : List (Name × β)) (name : Option Name) (ok : Bool) (s : β)
    (op : Op) (cfg : GenConfig) (extra : List (Name × β))
    (h : registerScalar custom name ok s = some c') :
    ∃ n, name = some n ∧ ok = true ∧
      assocGet n (strategyCall op cfg extra c').scalars = some s ∧
      ∀ m, m ≠ n → assocGet m (strategyCall op cfg extra c').scalars =
        assocGet m (strategyCall op cfg extra custom).scalars := by
  cases name with
  | none => simp [registerScalar] at h
  | some n =>
    cases ok with
    | false => simp [registerScalar] at h
    | true =>
      simp only [registerScalar, if_true, Option.some.injEq] at h
      subst h
      refine ⟨n, rfl, rfl, ?_, ?_⟩
      · rw [scalars_lookup, assocGet_dictSet_self]
      · intro m hm
        rw [scalars_lookup, scalars_lookup, assocGet_dictSet_ne _ _ _ _ hm]

theorem register_scalar_rejects {β : Type} (custom : List (Name × β)) (name : Option Name) (ok : Bool) (s : β) :
    registerScalar custom name ok s = none ↔ (name = none ∨ ok = false) := by
  cases name <;> cases ok <;> simp [registerScalar]

/-- non-vacuity: overriding a built-in keeps its place in the dict, a new name is appended, bad calls change nothing -/
example : registerAll [("Date".toList, 1)]
    [(some "UUID".toList, true, 2), (none, true, 3), (some "Date".toList, true, 4), (some "X".toList, false, 5)] =
    [("Date".toList, 4), ("UUID".toList, 2)] := by decide

/-! ### prepare_body -/

/-- a generated document is sent as the JSON object `{"query": <document>}` and nothing else -/
theorem prepareBody_text (doc : Name) :
    prepareBody (.text doc) = .json (.obj [("query", .str (String.ofList doc))]) := rfl


/-! ### schemas derived from one another -/

section Derivations
open SV.Model.C20Derive SV.Proofs.C20Derive

/-- **A filtered schema is a value.**  Whatever schemas are derived afterwards — from it, from its children, from its
    siblings, in any order and number — the filters of a schema that already exists (its include and its exclude set) stay
    what they were: `clone` copies both sets, so a derivation writes to cells that did not exist before. -/
theorem derived_schemas_do_not_change_existing_ones (h : Heap) (fs : FS) (ds : List Derive)
    (hi : fs.inc < h.length) (he : fs.exc < h.length) :
    view (deriveAll .copyBoth h ds) fs = view h fs := by
  unfold view
  rw [deriveAll_copy_frame ds h fs.inc hi, deriveAll_copy_frame ds h fs.exc he]

/-- the child has its parent's filters plus the new one (include case) -/
theorem derived_schema_has_parents_filters_plus_one (h : Heap) (p : FS) (f : Nat)
    (hi : p.inc < h.length) (he : p.exc < h.length) :
    let r := derive .copyBoth h ⟨p, true, f⟩
    view r.1 r.2 = ((view h p).1 ++ [f], (view h p).2) := by
  simp only [derive, clone, addTo, view, readCell]
  simp [List.getElem?_append_left hi, List.getElem?_append_left he, List.getElem?_set_self, List.getElem?_set_ne]

/-- with a `clone` that shares the include set the parent changes under its child's hands: root with include filter 1,
    `q = root.include(2)`: the root now also carries 2 -/
theorem shared_include_set_changes_the_parent :
    let h : Heap := [[1], []]
    let root : FS := ⟨0, 1⟩
    view (deriveAll .shareIncludes h [⟨root, true, 2⟩]) root = ([1, 2], []) ∧
    view (deriveAll .copyBoth h [⟨root, true, 2⟩]) root = ([1], []) := by decide

end Derivations

end SV.Props.C20
