/-
  Specification side of C01 (conversion part): the fragment of OpenAPI schema objects on which the conversion is
  claimed to be exact, the contract asked of the pattern rewriter, and the two environments the theorems compare.
  The reference semantics itself is the shared `SV.Spec.JsonSchema.validF`.
-/
import SV.Model.C01
import SV.Spec.JsonSchema

namespace SV.Spec.C01
open SV SV.Model.C01 SV.Spec.JsonSchema

/-- plain JSON Schema reading of the converted schema -/
def envPlain (env : Env) : Env := { env with oas := .none }
/-- request-side OpenAPI reading of the original schema (`nullable_name` as configured) -/
def envRequest (env : Env) (nn : String) : Env := { env with oas := .request, nullableName := nn }

def isScalar : Json → Bool
  | .arr _ => false
  | .obj _ => false
  | _ => true

/-- contains no dict (two levels are enough: type lists, `required`, enums of scalars): `transform` leaves it alone -/
def inert : Json → Bool
  | .obj _ => false
  | .arr xs => xs.all isScalar
  | _ => true

def notArr : Json → Bool
  | .arr _ => false
  | _ => true

def optAll (p : Json → Bool) : Option Json → Bool
  | none => true
  | some x => p x

/-- keyword positions whose value is not a sub-schema -/
def scalarKeys : List String :=
  ["type", "enum", "const", "minimum", "exclusiveMinimum", "maximum", "exclusiveMaximum", "multipleOf",
   "minLength", "maxLength", "pattern", "format", "minItems", "maxItems", "uniqueItems", "minProperties",
   "maxProperties", "required"]

def listKeys : List String := ["allOf", "anyOf", "oneOf"]

/-- a list of sub-schemas one array level down -/
def fragList (fr : Nat → Json → Bool) (c : Nat) : Json → Bool
  | .arr ss => decide (1 ≤ c) && ss.all (fr (c - 1))
  | _ => false

/-- a `properties` / `patternProperties` map: every value a schema *object* of the fragment; for `properties`
    (`chkRO`) none of them is readOnly (the readOnly rewriting has its own theorems) -/
def fragProps (fr : Nat → Json → Bool) (c : Nat) (chkRO : Bool) : Json → Bool
  | .obj ps => decide (1 ≤ c) && ps.all fun (_, s) => s.isObj && fr (c - 1) s && !(chkRO && isReadOnly s)
  | _ => false

/-- the keywords of one schema object; `c` is the fuel with which `transform` visits its values -/
def fragBody (fr : Nat → Json → Bool) (c : Nat) (kvs : Kvs) : Bool :=
  (Json.lookup "$ref" kvs).isNone &&
  scalarKeys.all (fun k => optAll inert (Json.lookup k kvs)) &&
  !isFileType (Json.lookup "type" kvs) &&
  optAll (fun s => notArr s && fr c s) (Json.lookup "items" kvs) &&
  optAll (fr c) (Json.lookup "not" kvs) &&
  optAll (fr c) (Json.lookup "additionalProperties" kvs) &&
  listKeys.all (fun k => optAll (fragList fr c) (Json.lookup k kvs)) &&
  optAll (fragProps fr c true) (Json.lookup "properties" kvs) &&
  optAll (fragProps fr c false) (Json.lookup "patternProperties" kvs)

/-- `Frag nn f c S`: `S` is a schema of the fragment, `f` is enough validity fuel for it and `c` enough conversion
    fuel (`transform cfg c S` never stops early). No `$ref`, no `type: file`, no tuple `items`, literals (`enum`, `const`,
    …) without dicts, property schemas are dicts, no readOnly property. Any nesting of nullable, combinators, arrays,
    objects, pattern/length keywords. -/
def Frag (nn : String) : Nat → Nat → Json → Bool
  | 0, _, _ => false
  | _ + 1, _, .bool _ => true
  | f + 1, c, .obj kvs =>
    match Json.lookup nn kvs with
    | some (.bool true) => decide (3 ≤ c) && fragBody (fun c' s => Frag nn f c' s) (c - 3) (eraseKey nn kvs)
    | _ => decide (1 ≤ c) && fragBody (fun c' s => Frag nn f c' s) (c - 1) kvs
  | _ + 1, _, _ => false

def lenIn (lo hi : Option Nat) (n : Nat) : Bool :=
  decide (lo.getD 0 ≤ n) && (match hi with | some h => decide (n ≤ h) | none => true)

/-- contract of the pattern rewriter that makes dropping the length keywords exact: whenever it changes the pattern,
    the new pattern means "old pattern and length in bounds" (under the regex oracle of the environment).
    `SV.Props.C01` proves the ⊆ direction of this for the anchored width-1 shapes on the regex model and refutes it for
    the shapes of findings F5, F28, F32, F36. -/
def PatExact (env : Env) (cfg : Cfg) : Prop :=
  ∀ p lo hi s, cfg.upd p lo hi ≠ p → env.re (cfg.upd p lo hi) s = (env.re p s && lenIn lo hi s.length)

end SV.Spec.C01
