/-
  Specification side of C01 (body alternatives): what a strategy may yield, relative to the contract of the
  third-party generator (`from_schema s` yields only instances valid for `s`).
-/
import SV.Model.C01Body
import SV.Spec.C01

namespace SV.Spec.C01Body
open SV SV.Model.C01 SV.Model.C01Body

/-- a generated `case.body` -/
inductive BodyVal where
  /-- `NOT_SET`: no payload is sent -/
  | notSet
  | val (v : Json)

/-- `Yields gen st x`: the strategy `st` can produce `x`, when `gen s v` says that `from_schema(s)` can produce `v`.
    Positive strategies yield what the generator yields for the schema they were built from, and `NOT_SET` only when
    they were built with that branch; user-registered and negative strategies are not constrained here. -/
def Yields (gen : Json → Json → Prop) : Strat → BodyVal → Prop
  | .built s _ .positive _, .val v => gen s v
  | .built _ _ .positive ns, .notSet => ns = true
  | .built _ _ .negative _, _ => True
  | .custom _, _ => True

end SV.Spec.C01Body
