/-
  Reference semantics of the regex trees of SV.Model.C01Regex: full-match relation `Matches` (inductive, atoms are
  abstract one-character tests) and search semantics of a top-level pattern with positional anchors.
  `$` is read as "end of input" (the ECMA-262 reading JSON Schema prescribes, and what hypothesis-jsonschema generates).
-/
import SV.Model.C01Regex

namespace SV.Spec.C01Regex
open SV.Model.C01Regex

inductive Matches {α : Type} (sat : α → Char → Bool) : Re α → List Char → Prop
  | eps : Matches sat .eps []
  | atom {a c} : sat a c = true → Matches sat (.atom a) [c]
  | cat {r s u w} : Matches sat r u → Matches sat s w → Matches sat (.cat r s) (u ++ w)
  | altL {r s u} : Matches sat r u → Matches sat (.alt r s) u
  | altR {r s u} : Matches sat s u → Matches sat (.alt r s) u
  | rep {r lo hi} (ws : List (List Char)) : (∀ w ∈ ws, Matches sat r w) → lo ≤ ws.length →
      (MAXREPEAT ≤ hi ∨ ws.length ≤ hi) → Matches sat (.rep r lo hi) ws.flatten

/-- matches exactly the one-character strings (literal, class, `.`, `\d`…, and alternations of those) -/
def width1 : Re α → Bool
  | .atom _ => true
  | .alt r s => width1 r && width1 s
  | _ => false

def itemRe : Item α → Re α
  | .at _ => .eps
  | .lit a => .atom a
  | .cls a => .atom a
  | .rep lo hi body => .rep body lo hi
  | .other r => r

/-- the items in sequence -/
def seqRe : List (Item α) → Re α
  | [] => .eps
  | x :: rest => .cat (itemRe x) (seqRe rest)

def isBegin : Item α → Bool
  | .at .bos => true
  | .at .bosA => true
  | _ => false

def isEnd : Item α → Bool
  | .at .eos => true
  | .at .eosZ => true
  | _ => false

/-- `re.search` on a pattern `first :: middle ++ [last]` anchored at both ends: the whole string matches the middle -/
def SearchAnchored (sat : α → Char → Bool) (middle : List (Item α)) (s : List Char) : Prop :=
  Matches sat (seqRe middle) s

/-- `re.search` on an unanchored body: some substring matches -/
def SearchFree (sat : α → Char → Bool) (body : List (Item α)) (s : List Char) : Prop :=
  ∃ pre mid post, s = pre ++ mid ++ post ∧ Matches sat (seqRe body) mid

/-- every repeat in the list repeats a one-character-wide expression and nothing else than literals and repeats occurs -/
def simpleMiddle : List (Item α) → Bool
  | [] => true
  | .lit _ :: rest => simpleMiddle rest
  | .rep _ _ body :: rest => width1 body && simpleMiddle rest
  | _ => false

/-- atom interpretation used by the witness theorems: 0 = `[a-z]`, 1 = `a`, 2 = `b`, anything else = `[0-9]` -/
def satW : Nat → Char → Bool := fun n c =>
  if n = 0 then c.isLower else if n = 1 then c == 'a' else if n = 2 then c == 'b' else c.isDigit

end SV.Spec.C01Regex
