/-
  Reference semantics of the regex trees of SV.Model.C01Regex: full-match relation `Matches` (inductive, atoms are
  abstract one-character tests) and search semantics of a top-level pattern with positional anchors.
  `$` is read as "end of input" (the ECMA-262 reading JSON Schema prescribes, and what hypothesis-jsonschema generates).
-/
import SV.Model.C01Regex

namespace SV.Spec.C01Regex
open SV.Model.C01Regex

inductive Matches {α : Type} (sat : α → Char → Bool) : Re α → List Char → Prop
  | eps : Matches sat .eps []
  | atom {a c} : sat a c = true → Matches sat (.atom a) [c]
  | cat {r s u w} : Matches sat r u → Matches sat s w → Matches sat (.cat r s) (u ++ w)
  | altL {r s u} : Matches sat r u → Matches sat (.alt r s) u
  | altR {r s u} : Matches sat s u → Matches sat (.alt r s) u
  | rep {r lo hi} (ws : List (List Char)) : (∀ w ∈ ws, Matches sat r w) → lo ≤ ws.length →
      (MAXREPEAT ≤ hi ∨ ws.length ≤ hi) → Matches sat (.rep r lo hi) ws.flatten

/-- matches exactly the one-character strings (literal, class, `.`, `\d`…, and alternations of those) -/
def width1 : Re α → Bool
  | .atom _ => true
  | .alt r s => width1 r && width1 s
  | _ => false

def itemRe : Item α → Re α
  | .at _ => .eps
  | .lit a => .atom a
  | .cls a => .atom a
  | .rep lo hi body => .rep body lo hi
  | .other r => r

/-- the items in sequence -/
def seqRe : List (Item α) → Re α
  | [] => .eps
  | x :: rest => .cat (itemRe x) (seqRe rest)

def isBegin : Item α → Bool
  | .at .bos => true
  | .at .bosA => true
  | _ => false

def isEnd : Item α → Bool
  | .at .eos => true
  | .at .eosZ => true
  | _ => false

/-- `re.search` on a pattern `first :: middle ++ [last]` anchored at both ends: the whole string matches the middle -/
def SearchAnchored (sat : α → Char → Bool) (middle : List (Item α)) (s : List Char) : Prop :=
  Matches sat (seqRe middle) s

/-- `re.search` on an unanchored body: some substring matches -/
def SearchFree (sat : α → Char → Bool) (body : List (Item α)) (s : List Char) : Prop :=
  ∃ pre mid post, s = pre ++ mid ++ post ∧ Matches sat (seqRe body) mid

/-- every repeat in the list repeats a one-character-wide expression and nothing else than literals and repeats occurs -/
def simpleMiddle : List (Item α) → Bool
  | [] => true
  | .lit _ :: rest => simpleMiddle rest
  | .rep _ _ body :: rest => width1 body && simpleMiddle rest
  | _ => false

/-- atom interpretation used by the witness theorems: 0 = `[a-z]`, 1 = `a`, 2 = `b`, anything else = `[0-9]` -/
def satW : Nat → Char → Bool := fun n c =>
  if n = 0 then c.isLower else if n = 1 then c == 'a' else if n = 2 then c == 'b' else c.isDigit

/-! ## `re.search` on an arbitrary top-level item sequence (any mix of positional assertions)

  A match of the item sequence occupies `mid`, with `pre` before it and `post` after it in the searched string.
  Positional assertions consume nothing and look at the text on both sides of their position. -/

/-- `\w` on ASCII text -/
def isWordChar (c : Char) : Bool := c.isAlphanum || c == '_'

def lastIsWord (pre : List Char) : Bool := match pre.getLast? with | some c => isWordChar c | none => false
def headIsWord (post : List Char) : Bool := match post.head? with | some c => isWordChar c | none => false

/-- what an assertion demands of the text before (`pre`) and after (`post`) its position; `bnd` interprets the
    assertions the model does not name. `$` is read as end of input (see the head of this file). -/
def atOK (bnd : List Char → List Char → Bool) : AtKind → List Char → List Char → Bool
  | .bos, pre, _ => pre.isEmpty
  | .bosA, pre, _ => pre.isEmpty
  | .eos, _, post => post.isEmpty
  | .eosZ, _, post => post.isEmpty
  | .wordB, pre, post => lastIsWord pre != headIsWord post
  | .nonWordB, pre, post => lastIsWord pre == headIsWord post
  | .other, pre, post => bnd pre post

/-- `SeqAt items pre mid post`: the items match `mid` in the context `pre · mid · post` -/
inductive SeqAt {α : Type} (sat : α → Char → Bool) (bnd : List Char → List Char → Bool) :
    List (Item α) → List Char → List Char → List Char → Prop
  | nil {pre post} : SeqAt sat bnd [] pre [] post
  | at {k rest pre mid post} : atOK bnd k pre (mid ++ post) = true → SeqAt sat bnd rest pre mid post →
      SeqAt sat bnd (.at k :: rest) pre mid post
  | item {x rest pre u w post} : x.isAt = false → Matches sat (itemRe x) u → SeqAt sat bnd rest (pre ++ u) w post →
      SeqAt sat bnd (x :: rest) pre (u ++ w) post

/-- `re.search(pattern, s)` is not `None` -/
def Search {α : Type} (sat : α → Char → Bool) (bnd : List Char → List Char → Bool) (items : List (Item α))
    (s : List Char) : Prop :=
  ∃ pre mid post, s = pre ++ mid ++ post ∧ SeqAt sat bnd items pre mid post

/-- `minLength <= len(s) <= maxLength` (absent keywords do not constrain) -/
def LenOK (lo hi : Option Nat) (n : Nat) : Prop := lo.getD 0 ≤ n ∧ ∀ h, hi = some h → n ≤ h

/-- what a string schema `{pattern, minLength, maxLength}` accepts when the length keywords are still there (`keep`)
    or have been dropped -/
def Accepts {α : Type} (sat : α → Char → Bool) (bnd : List Char → List Char → Bool) (items : List (Item α))
    (keep : Bool) (lo hi : Option Nat) (s : List Char) : Prop :=
  Search sat bnd items s ∧ (keep = true → LenOK lo hi s.length)

/-- every top-level repeat has `lo <= hi` (what `sre_parse` guarantees) -/
def wfItems : List (Item α) → Prop
  | [] => True
  | .rep lo hi _ :: rest => lo ≤ hi ∧ wfItems rest
  | _ :: rest => wfItems rest

/-- a bare literal or class (no quantifier of its own) -/
def isBareAtom : Item α → Bool
  | .lit _ => true
  | .cls _ => true
  | _ => false

/-- the shape of finding F32: a single bare literal/class between two positional assertions (`^a$`, `\b[ab]\b`) -/
def bareBetweenAt : List (Item α) → Bool
  | [a, x, b] => a.isAt && b.isAt && isBareAtom x
  | _ => false

end SV.Spec.C01Regex
