/-
  Reference predicates for C02, written from the property statement (not from the code):

  * `labelsSound`: a negative-mode case is labelled negative, at least one part is labelled negative, every part
    labelled negative is present and violates the declared schema of its location, every part labelled positive
    conforms to it (an absent part conforms iff nothing is required there).
  * `drawOK`: what the strategies hand to `openapi_cases` — the contract of `from_schema` (positive strategy: valid
    values), of `negative_schema`'s final filter (negative strategy: invalid values), of `st.none()` for locations
    without parameters and of the `| just(NOT_SET)` alternative of optional bodies.
  * string coercion: a parameter value is judged through its wire spelling (`readings`), a parameter container
    through `partConforms`.
  Validity itself is `SV.Spec.JsonSchema.validF`; the theorems are stated for an arbitrary validity predicate.
-/
import SV.Model.C02
import SV.Spec.JsonSchema

namespace SV.Spec.C02
open SV SV.Model.C02 SV.Spec.JsonSchema

def paramLocs : List Loc := [.query, .path, .header, .cookie]

/-! ## label soundness -/

def valueOf (c : Case) (l : Loc) : Option Json :=
  match c.values.lookup l with
  | some v => v
  | none => none

/-- one labelled part: negative ⇒ present and invalid; positive ⇒ valid, or absent where absence conforms -/
def partSound (valid : Loc → Json → Bool) (absentOk : Loc → Bool) (c : Case) (lm : Loc × Mode) : Bool :=
  match lm.2, valueOf c lm.1 with
  | .negative, some x => !(valid lm.1 x)
  | .negative, none => false
  | .positive, some x => valid lm.1 x
  | .positive, none => absentOk lm.1

def labelsSound (valid : Loc → Json → Bool) (absentOk : Loc → Bool) (c : Case) : Bool :=
  c.mode == .negative &&
  c.components.any (fun lm => lm.2 == .negative) &&
  c.components.all (partSound valid absentOk c)

/-! ## the contract of the strategies -/

/-- a parameter location: `st.none()` without parameters; otherwise a value that is valid exactly when the
    generator chosen by `generate_parameter` is the positive one -/
def paramDrawOK (valid : Loc → Json → Bool) (op : Op) (mode : Mode) (d : Draws) (l : Loc) : Bool :=
  if (op.params l).isEmpty then (d.param l).isNone
  else match d.param l with
    | some x => valid l x == (generatorFor op mode l == .positive)
    | none => false

/-- the body: the drawn candidate exists; a present value is valid exactly when the body generator is positive; an
    absent one (`NOT_SET`) is only possible for an optional body — and, in the repaired variant, only from the
    positive strategy -/
def bodyDrawOK (v : Variant) (valid : Loc → Json → Bool) (op : Op) (mode : Mode) (d : Draws) : Bool :=
  if op.body.isEmpty then true
  else
    let cg := bodyCandidates mode op.body
    match cg.1[d.bodyIdx]? with
    | none => false
    | some item =>
      match d.body with
      | some x => valid .body x == (cg.2 == .positive)
      | none => !item.required && (v == .asFound || cg.2 == .positive)

def drawOK (v : Variant) (valid : Loc → Json → Bool) (op : Op) (mode : Mode) (d : Draws) : Bool :=
  paramLocs.all (paramDrawOK valid op mode d) && bodyDrawOK v valid op mode d

/-- absence conforms: a location without parameters; an optional body -/
def absentOk (op : Op) (mode : Mode) (d : Draws) : Loc → Bool
  | .body => match (bodyCandidates mode op.body).1[d.bodyIdx]? with
    | some item => !item.required
    | none => false
  | l => (op.params l).isEmpty

/-- a parameter location that cannot be negated by the code base's criteria (`generate_parameter` falls back) -/
def cannotNegate (op : Op) (l : Loc) : Bool :=
  (l == .path && !(canNegatePath op.path)) || (isHeaderLoc l && !(canNegateHeaders (op.params l)))

/-- some input of the operation can be violated, by the code base's own criteria -/
def negatable (op : Op) : Bool :=
  paramLocs.any (fun l => !(op.params l).isEmpty && generatorFor op .negative l == .negative) ||
  op.body.any (·.canNeg)

/-! ## string coercion -/

def digitsVal (cs : List Char) : Nat := cs.foldl (fun acc c => acc * 10 + (c.toNat - '0'.toNat)) 0

def isDigits (cs : List Char) : Bool := !cs.isEmpty && cs.all Char.isDigit

/-- strip trailing zeros of the fractional part: `m·10^-e` in lowest terms -/
def normDec (m : Int) : Nat → Int × Nat
  | 0 => (m, 0)
  | e + 1 => if m % 10 == 0 then normDec (m / 10) e else (m, e + 1)

def splitDot : List Char → List Char × Option (List Char)
  | [] => ([], none)
  | '.' :: rest => ([], some rest)
  | c :: rest => let r := splitDot rest; (c :: r.1, r.2)

/-- `-?digits(.digits)?` as an exact decimal -/
def parseDecimal (cs : List Char) : Option Json :=
  let (neg, body) := match cs with
    | '-' :: rest => (true, rest)
    | _ => (false, cs)
  match splitDot body with
  | (ip, none) =>
    if isDigits ip then some (.num (if neg then -(digitsVal ip : Int) else digitsVal ip) 0) else none
  | (ip, some fp) =>
    if isDigits ip && isDigits fp then
      let m : Int := digitsVal (ip ++ fp)
      let r := normDec (if neg then -m else m) fp.length
      some (.num r.1 r.2)
    else none

/-- the JSON values a wire spelling can stand for -/
def readings : Json → List Json
  | .str w =>
    [.str w] ++
    (match parseDecimal w.toList with | some n => [n] | none => []) ++
    (if w == "true" then [.bool true] else if w == "false" then [.bool false] else if w == "null" then [.null] else [])
  | .num m 0 => [.num m 0, .str (toString m)]
  | .bool b => [.bool b, .str (if b then "true" else "false")]
  | .null => [.null, .str "null"]
  | x => [x]

def coercedValid (fuel : Nat) (env : Env) (schema value : Json) : Bool :=
  (readings value).any (validF fuel env schema ·)

/-- a parameter container (name → value) read through its wire spelling conforms to the location schema
    `{type: object, properties, required, additionalProperties: false}`: every required parameter is present, no
    undeclared one is, every value has a reading that is valid for its parameter's schema -/
def partConforms (fuel : Nat) (env : Env) (locSchema part : Json) : Bool :=
  match locSchema, part with
  | .obj kvs, .obj members =>
    (requiredOf kvs).all (fun k => (Json.lookup k members).isSome) &&
    members.all (fun (k, x) =>
      match Json.lookup k (propsOf kvs) with
      | some ps => coercedValid fuel env ps x
      | none => false)
  | _, _ => false

/-! ## full-strength statements (proved or refuted per variant in `SV.Props.C02`) -/

/-- The full statement of label soundness for a variant of the code: for every validity predicate, operation,
    configuration and draw respecting the strategies' contract, a case produced in negative mode is labelled
    negative, has a part labelled negative, every part labelled negative is present and invalid and every part
    labelled positive conforms. -/
def LabelsSoundFull (v : Variant) : Prop :=
  ∀ (valid : Loc → Json → Bool) (op : Op) (only : Bool) (d : Draws) (c : Case),
    drawOK v valid op .negative d = true →
    openapiCases v op only .negative d = .case c →
    labelsSound valid (absentOk op .negative d) c = true

/-- a Python dict: every binding is the one `lookup` finds (keys are unique) -/
def DictFun (d : Dict) : Prop := ∀ p ∈ d, Json.lookup p.1 d = some p.2

/-- The full progress statement for `change_type`: every instance of the mutated schema violates the original. -/
def ChangeTypeNegatesFull : Prop :=
  ∀ (ctx : Ctx) (d d' : Dict) (choice : String) (fuel fuel' : Nat) (env : Env) (v : Json),
    changeType ctx d choice = (.success, d') → env.oas = .none → Json.lookup "$ref" d = none →
    (∀ x, Json.lookup "type" d = some x → (∃ t, x = .str t) ∨ (∃ ts, x = .arr ts)) →
    validF (fuel + 1) env (.obj d') v = true → validF (fuel' + 1) env (.obj d) v = false

/-- The full progress statement for `negate_constraints`. -/
def NegateNegatesFull : Prop :=
  ∀ (var : Variant) (ctx : Ctx) (canNeg : Bool) (d d' : Dict) (cand : String) (en : List String) (fuel : Nat)
    (env : Env) (v : Json),
    negateConstraints var ctx canNeg d cand en = (.success, d') → env.oas = .none → Json.lookup "$ref" d = none →
    DictFun d → validF (fuel + 2) env (.obj d') v = true → validF (fuel + 1) env (.obj d) v = false

end SV.Spec.C02
