/-
  Reference predicates for C02 in the presence of explicitly supplied values (written from the property statement):

  * an input the caller supplied is not an input of the generator: it is never labelled, and it cannot be the reason
    why an operation gets no negative cases;
  * `negatableX`: some input that is *left to generate* can be violated;
  * `drawOKX`: the contract of the strategies, per location, relative to the strategy `get_parameters_strategy` hands
    out (`st.none()` yields `None`; a factory strategy yields a dict whose merge with the explicit part is valid
    exactly when the factory is the positive one — the step from the drawn part to the merged part is
    `merge_keeps_violation` / `merge_keeps_conformance` below, over `locValid`);
  * `locValid`: validity of a parameter container against the code base's location schema
    `{properties, required, additionalProperties: false}` given the validity of each value for its parameter.
-/
import SV.Spec.C02
import SV.Model.C02Explicit

namespace SV.Spec.C02
open SV SV.Model.C02

/-- the strategy of a parameter location and what it may yield -/
def paramDrawOKX (valid : Loc → Json → Bool) (vx : Variant) (op : Op) (rq : Reqs) (ex : Explicits) (mode : Mode)
    (d : Draws) (l : Loc) : Bool :=
  match strategyFor vx op rq ex mode l with
  | .none => (d.param l).isNone
  | .factory m _ _ =>
    match d.param l, mergeValue (ex.param l) (d.param l) with
    | some (.obj _), some x => valid l x == (m == .positive)
    | _, _ => false

def bodyDrawOKX (v : Variant) (valid : Loc → Json → Bool) (op : Op) (ex : Explicits) (mode : Mode) (d : Draws) : Bool :=
  ex.body.isSome || bodyDrawOK v valid op mode d

def drawOKX (vs : Variants) (valid : Loc → Json → Bool) (op : Op) (rq : Reqs) (ex : Explicits) (mode : Mode)
    (d : Draws) : Bool :=
  paramLocs.all (paramDrawOKX valid vs.exclusion op rq ex mode d) && bodyDrawOKX vs.labels valid op ex mode d

def isNegativeFactory : Strat → Bool
  | .factory .negative _ _ => true
  | _ => false

/-- some input that is left to generate can be violated (by the code base's own criteria) -/
def negatableX (vx : Variant) (op : Op) (rq : Reqs) (ex : Explicits) : Bool :=
  paramLocs.any (fun l => isNegativeFactory (strategyFor vx op rq ex .negative l)) ||
  (ex.body.isNone && op.body.any (·.canNeg))

/-- every declared parameter of the location is supplied by the caller -/
def allSupplied (op : Op) (ex : Explicits) (l : Loc) : Bool :=
  match ex.param l with
  | some (p :: e) => (op.params l).all fun q => (excludeNames (some (p :: e))).contains q.name
  | _ => false

/-- the code base's own criterion for "this set of parameters of location `l` can be negated" -/
def negatableParams (l : Loc) (ps : List Param) : Bool :=
  !ps.isEmpty && (l != .path || canNegatePath ps) && (!(isHeaderLoc l) || canNegateHeaders ps)

/-! ## full-strength statements (proved or refuted per variant in `SV.Props.C02`) -/

/-- The negative factory is only ever asked for a schema that — by the code base's own criterion, applied to the
    parameters that are really left to generate — can be negated. (Otherwise the location's strategy rejects every
    draw and the whole operation gets no negative cases, whatever else could be violated.) -/
def NegativeFactoryOnlyOnNegatable (vx : Variant) : Prop :=
  ∀ (op : Op) (rq : Reqs) (ex : Explicits) (l : Loc) (rem : List Param) (req : List String),
    l ∈ paramLocs → strategyFor vx op rq ex .negative l = .factory .negative rem req → negatableParams l rem = true

/-- "Does get negative cases" with explicit values: something left to generate is negatable ⇒ every draw respecting
    the contract yields a case. -/
def GetsCasesFullX (vs : Variants) : Prop :=
  ∀ (valid : Loc → Json → Bool) (op : Op) (rq : Reqs) (ex : Explicits) (only : Bool) (d : Draws),
    negatableX vs.exclusion op rq ex = true → drawOKX vs valid op rq ex .negative d = true →
    ∃ c, openapiCasesX vs op ex only .negative d = .case c

/-- Label soundness with explicit values. -/
def LabelsSoundFullX (vs : Variants) : Prop :=
  ∀ (valid : Loc → Json → Bool) (op : Op) (rq : Reqs) (ex : Explicits) (only : Bool) (d : Draws) (c : Case),
    drawOKX vs valid op rq ex .negative d = true →
    openapiCasesX vs op ex only .negative d = .case c →
    labelsSound valid (absentOk op .negative d) c = true

/-- A body labelled negative comes from the negative factory — never from a registered media-type strategy (the
    user's own, positive data) and never with the `NOT_SET` alternative (an absent optional body conforms). -/
def NegativeBodyFromNegativeFactory (v : Variant) : Prop :=
  ∀ (items : List BodyItemM) (it : BodyItemM),
    (bodyCandidatesM v .negative items).2 = .negative → it ∈ (bodyCandidatesM v .negative items).1 →
    bodyStrategyM it .negative = .factory .negative false

/-! ## the location schema and merging -/

/-- validity of a parameter container for `{properties: names, required: req, additionalProperties: false}`;
    `pv name value` = the value conforms to the schema of parameter `name` -/
def locValid (pv : String → Json → Bool) (names req : List String) (members : Dict) : Bool :=
  req.all (fun n => (Json.lookup n members).isSome) &&
  members.all (fun kv => names.contains kv.1 && pv kv.1 kv.2)

/-- keys of a Python dict are unique -/
def uniqueKeys (d : Dict) : Prop := (d.map (·.1)).Nodup

def without (names exclude : List String) : List String := names.filter fun n => !(exclude.contains n)

/-- Full statement: if the drawn part violates the reduced location schema, the merged part violates the declared
    one. -/
def MergeKeepsViolationFull : Prop :=
  ∀ (pv : String → Json → Bool) (names req : List String) (e new : Dict),
    uniqueKeys new →
    locValid pv (without names (e.map (·.1))) (without req (e.map (·.1))) new = false →
    locValid pv names req (dupdate e new) = false

end SV.Spec.C02
