/-
  Reference predicates for C03, written from the property statement:
  * a value labelled positive conforms to the declared schema, a value labelled negative violates it
    (`labelOk`, against the shared JSON-Schema semantics `validF`), values copied from the author's
    examples / defaults are exempt;
  * a negative value violates the schema *in the way its description says* (`violatesAsDescribed`, for the
    description classes that name one keyword);
  * what an oracle answer must satisfy for the theorems to apply (`callSound`).
-/
import SV.Spec.JsonSchema
import SV.Model.C03

namespace SV.Spec.C03
open SV SV.Spec.JsonSchema SV.Model.C03

/-- values copied verbatim from `example` / `examples` / `default` (also when embedded into an object) -/
def exempt : Desc → Bool
  | .exampleValue | .defaultValue => true
  | .objectValid _ inner => exempt inner
  | _ => false

/-- the label of a generated value matches its content -/
def labelOk (fuel : Nat) (env : Env) (schema : Json) (gv : GV) : Bool :=
  exempt gv.desc ||
  (match gv.mode with
   | .positive => validF fuel env schema gv.value
   | .negative => !(validF fuel env schema gv.value))

/-- JSON type names a value belongs to -/
def jsonTypeIs (t : String) (v : Json) : Bool := typeNameOk t v

/-- the keyword a description blames is really violated by the value (top-level keyword classes only) -/
def violatesAsDescribed (env : Env) (kvs : List (String × Json)) (gv : GV) : Bool :=
  match gv.desc, gv.value with
  | .greaterThanMaximum, .num m e => !(maximumOk kvs m e)
  | .greaterThanMaximum, _ => false
  | .smallerThanMinimum, .num m e => !(minimumOk kvs m e)
  | .smallerThanMinimum, _ => false
  | .nonMultiple, .num m e => !(multipleOfOk kvs m e)
  | .nonMultiple, _ => false
  | .incorrectType, v => !(typeOk kvs v)
  | .invalidEnum, v => !(enumOk kvs v && constOk kvs v)
  | .smallerThanMinLength, .str s => (match natKw kvs "minLength" with | some b => decide (s.length < b) | none => false)
  | .smallerThanMinLength, _ => false
  | .largerThanMaxLength, .str s => (match natKw kvs "maxLength" with | some b => decide (b < s.length) | none => false)
  | .largerThanMaxLength, _ => false
  | .notMatchingPattern, .str s => (match Json.lookup "pattern" kvs with | some (.str p) => !(env.re p s) | _ => false)
  | .notMatchingPattern, _ => false
  | .notMatchingFormat, v => !(formatOk env kvs v)
  | _, _ => true

/-- what the theorems assume about one oracle call: a `generate_from_schema(s)` answer is valid for `s` -/
def callSound (fuel : Nat) (env : Env) (c : Call) : Prop :=
  match c.req, c.ans with
  | .schema s, .val v => validF fuel env s v = true
  | _, _ => True

/-- the JSON shape a `_negative_type` strategy tag promises (`STRATEGIES_FOR_TYPE`, non-integer floats for
    "number-nonint") -/
def tagOk (tag : String) (v : Json) : Bool :=
  match v with
  | .num _ e => tag == "number" || (tag == "integer" && e == 0) || (tag == "number-nonint" && e != 0)
  | .bool _ => tag == "boolean"
  | .null => tag == "null"
  | .str _ => tag == "string"
  | .arr _ => tag == "array"
  | .obj _ => tag == "object"

/-- oracle contract used by the end-to-end theorems: schema requests are answered with valid instances
    (hypothesis-jsonschema), `_negative_type` draws have the JSON type of their strategy (Hypothesis) -/
def oracleOk (fuel : Nat) (env : Env) (c : Call) : Prop :=
  match c.req, c.ans with
  | .schema s, .val v => validF fuel env s v = true
  | .strategy "negative_type" (.str tag), .val v => tagOk tag v = true
  | _, _ => True

/-- integer instance against the numeric keyword family, in arithmetic form (effective bounds of the repaired
    reading: a draft-4 `true` tightens the inclusive bound by one, a numeric exclusive bound combines with it) -/
def NumKw.okInt (k : NumKw) (n : Int) : Prop :=
  (∀ lo, effMin .repaired k = some lo → lo ≤ n) ∧
  (∀ hi, effMax .repaired k = some hi → n ≤ hi) ∧
  (∀ x, k.multipleOf = some x → n % x = 0)

/-- the schema constrains numbers only through `type` and the numeric keyword family -/
def plainKeys (kvs : List (String × Json)) : Prop :=
  Json.lookup "$ref" kvs = none ∧ Json.lookup "enum" kvs = none ∧ Json.lookup "const" kvs = none ∧
  Json.lookup "format" kvs = none ∧ Json.lookup "allOf" kvs = none ∧ Json.lookup "anyOf" kvs = none ∧
  Json.lookup "oneOf" kvs = none ∧ Json.lookup "not" kvs = none

/-- a "plain numeric schema": an object schema of type integer / number whose constraining keywords all belong to
    the numeric family (any number of annotation keywords next to them), keys unique as in a Python dict -/
structure PlainNumeric (kvs : List (String × Json)) : Prop where
  noShadow : ∀ k v, (k, v) ∈ kvs → Json.lookup k kvs = some v
  typed : ∃ t, Json.lookup "type" kvs = some (.str t) ∧ (t = "integer" ∨ t = "number")
  keys : ∀ k v, (k, v) ∈ kvs →
    k = "type" ∨ k = "maximum" ∨ k = "minimum" ∨ k = "exclusiveMaximum" ∨ k = "exclusiveMinimum" ∨ k = "multipleOf" ∨
    armOf k = Arm.other
  plain : plainKeys kvs

end SV.Spec.C03
