/-
  Reference predicates for the case-level part of C03, written from the property statement:
  "the case as a whole is labelled negative exactly when one of its parts is invalid, a required parameter was
   removed, a parameter was duplicated or an undocumented HTTP method is used", and every component label agrees
  with what was placed into that component.
  Contents are read by label (a slot carries the label of the generated value it came from); whether that label is
  right for the value is the other half of the property (`labelOk` in SV/Spec/C03.lean).
-/
import SV.Model.C03Cases

namespace SV.Spec.C03
open SV SV.Model.C03

def allKinds : List Kind := [.query, .pathParameters, .headers, .cookies, .body]

def anyNegative (xs : List Slot) : Bool := xs.any fun s => s.mode == Mode.negative

/-- the label a container deserves: negative iff it holds a value labelled negative, or a parameter was removed
    from it / duplicated in it -/
def labelOf : Content → Mode
  | .slots xs => if anyNegative xs then .negative else .positive
  | .duplicated _ _ => .negative
  | .removed _ _ => .negative
  | .generated m => m
  | .bodyValue m => m

/-- the label the case deserves -/
def caseSpecNegative (c : Case) : Bool :=
  c.method.isSome || allKinds.any fun k => (getAssoc k c.contents).map labelOf == some Mode.negative

def caseLabelOk (c : Case) : Bool := (c.mode == Mode.negative) == caseSpecNegative c

/-- every component label is the label its container deserves, and every container has a component label -/
def compsOk (c : Case) : Bool :=
  allKinds.all fun k => getAssoc k c.comps == (getAssoc k c.contents).map labelOf

/-- the label every template entry carries: positives come first whenever positive values are requested -/
def baseMode (inp : OpIn) : Mode := if inp.pos then .positive else .negative

/-- what the case-level theorems assume about the values cover_schema_iter handed over (both facts are theorems
    about the cover model — `cover_positive_only`, `cover_negative_only` — plus "a schema that has values at all has a
    positive one first", which fails exactly for the F8b/F8d shapes):
    * no parameter lives in the pseudo-location "body";
    * when positive values are requested, the first value of every parameter / body generator is positive;
    * when they are not, every value is negative. -/
structure WF (inp : OpIn) : Prop where
  nobody : ∀ p ∈ inp.params, kindOfLocation p.location ≠ some Kind.body
  headsPos : inp.pos = true →
    (∀ p ∈ inp.params, ∀ v rest, p.values = v :: rest → v.mode = Mode.positive) ∧
    (∀ b ∈ inp.bodies, ∀ v rest, b.values = v :: rest → v.mode = Mode.positive)
  allNeg : inp.pos = false →
    (∀ p ∈ inp.params, ∀ v ∈ p.values, v.mode = Mode.negative) ∧
    (∀ b ∈ inp.bodies, ∀ v ∈ b.values, v.mode = Mode.negative)

end SV.Spec.C03
