/-
  Reference predicates for the document-dependent part of C03, written from the property statement and the Open API
  specification, not from the code:
    "the case as a whole is labelled negative exactly when one of its parts is invalid, a required parameter was
     removed, a parameter was duplicated or an undocumented HTTP method is used".
  Which methods a path documents and which parameters an operation requires is read off the API description:
    * a Path Item Object may be given as a reference; then the fields of the referenced object are the path's fields
      (OAS 3.0 §Path Item Object, `$ref`);
    * the operations of a path are its fields named get / put / post / delete / options / head / patch / trace;
      any other field (`parameters`, `summary`, `servers`, `x-…`) is not an operation;
    * the parameters of an operation are its own `parameters` plus those of the path item; an operation-level
      declaration overrides a path-level one with the same name and location (§Path Item Object, `parameters`).
-/
import SV.Model.C03Doc
import SV.Spec.C03Cases

namespace SV.Spec.C03
open SV SV.Model.C03

/-- the HTTP methods a Path Item Object can document -/
def httpMethods : List String := ["get", "put", "post", "delete", "options", "head", "patch", "trace"]

/-- the Path Item Object the `paths` entry denotes -/
def pathItemOf (d : Doc) : Option PathItem :=
  match d.entry with
  | .inline item => some item
  | .ref name => (d.pathItems.find? fun p => p.1 == name).map (·.2)

/-- the path documents the method (lower-case token) -/
def documents (d : Doc) (m : String) : Bool :=
  match pathItemOf d with
  | some item => httpMethods.contains m && item.keys.contains m
  | none => false

def declared? (ds : List Decl) (name loc : String) : Option Decl :=
  ds.find? fun x => x.name == name && x.loc == loc

/-- the operation `m` of the path requires the parameter (name, location) -/
def requiresParam (d : Doc) (m name loc : String) : Bool :=
  match pathItemOf d with
  | none => false
  | some item =>
    match declared? ((item.own.find? fun p => p.1 == m).map (·.2) |>.getD []) name loc with
    | some x => x.required
    | none =>
      match declared? item.shared name loc with
      | some x => x.required
      | none => false

/-- the method a case is sent with: the operation's own unless overridden -/
def sentMethod (opMethod : String) (c : Case) : String := c.method.getD opMethod

/-- some part of the case carries a negative label / a parameter was removed from it or duplicated in it -/
def partsNegative (c : Case) : Bool :=
  allKinds.any fun k => (getAssoc k c.contents).map labelOf == some Mode.negative

/-- the label the case deserves, read against the document -/
def caseSpecNegativeDoc (d : Doc) (opMethod : String) (c : Case) : Bool :=
  !documents d (sentMethod opMethod c) || partsNegative c

def caseLabelOkDoc (d : Doc) (opMethod : String) (c : Case) : Bool :=
  (c.mode == Mode.negative) == caseSpecNegativeDoc d opMethod c

/-- what the description of a structurally negative case claims is true of the document:
    'Unspecified HTTP method: M' — the case is sent with M and the path does not document M;
    'Missing `p` at loc' — the operation requires p at loc -/
def descOkDoc (d : Doc) (opMethod : String) (c : Case) : Bool :=
  match c.desc with
  | .unspecifiedMethod m => sentMethod opMethod c == m && !documents d m
  | .missing name loc => requiresParam d opMethod name loc
  | _ => true

/-- well-formed description: no parameter is declared twice at the same level (OAS: "the list MUST NOT include
    duplicated parameters"; a unique parameter is a combination of a name and location) -/
def noDupDecls : List Decl → Bool
  | [] => true
  | x :: rest => !(rest.any fun y => sameParam x y) && noDupDecls rest

/-- A response of a server that implements the description, to a coverage case read by its contents:
    a method the path does not document is refused with 405 and an `Allow` header (RFC 9110 §15.5.6);
    a request with an invalid / removed / duplicated part is rejected with one of the client-error statuses;
    anything else is accepted (2xx). -/
def Conforms (d : Doc) (opMethod : String) (c : Case) (r : Resp) : Prop :=
  if documents d (sentMethod opMethod c) = false then r.status = 405 ∧ r.hasAllow = true
  else if partsNegative c = true then r.status ∈ [400, 406, 422]
  else 200 ≤ r.status ∧ r.status < 300

instance (d : Doc) (opMethod : String) (c : Case) (r : Resp) : Decidable (Conforms d opMethod c r) := by
  unfold Conforms; infer_instance

/-- what the document-level theorems assume about the description: the `paths` entry denotes a Path Item Object
    (inline or behind a reference that resolves), the operation under test is one of its operations, and no parameter
    is declared twice at one level (OAS: "the list MUST NOT include duplicated parameters") -/
structure WFDoc (x : DocIn) (item : PathItem) : Prop where
  resolves : pathItemOf x.doc = some item
  opDocumented : documents x.doc x.opMethod = true
  ownNoDup : noDupDecls ((getAssoc x.opMethod item.own).getD []) = true
  sharedNoDup : noDupDecls item.shared = true

end SV.Spec.C03
