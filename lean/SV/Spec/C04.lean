/-
  Reference predicates for C04, written from the property statement (not from the code):

  A response *deviates* from the documentation of its operation iff
    (status)  no documented key covers its status code and there is no `default`;
    (media)   media types are documented for it and its Content-Type is missing, malformed, or covered by none;
    (headers) a documented header marked required is absent, or a documented header that is present does not
              satisfy its schema under ANY reading of its text as a value of one of the documented types (the string
              coercion inherent to header values; the types are those of the schema — of the target of its `$ref` —,
              "string" when none is given, and null when the schema is nullable);
    (body)    its Content-Type is JSON, a (non-empty) schema is documented for its status code and media type, and
              the body is not JSON or violates that schema.
  The documentation that applies to a status code is found in the OpenAPI order: the explicit code, then a range
  key (`2XX`, any position may be `X`, either case), then `default`.

  Independent of the model wherever the property text leaves room for it: range keys are matched arithmetically
  (least significant digit first) instead of by enumeration; media types are read by a parser without the quote
  bookkeeping of `_parseparam`; coverage is `(m = * ∨ m = m') ∧ (s = * ∨ s = s')`; lookup is one recursive pass.
  Shared with the model on purpose: the data types, `digitsOf` (`str(status)`), the per-type header coercion
  (`coerceAs` / `readings`: the property reads header values "through string coercion"), `prepSchema` (headers are
  strings unless typed), `isJsonMedia`, and the notion of an empty schema.

  Formats: the format names of the JSON-Schema validation vocabulary (2020-12, section 7.3) are assertions for
  response conformance in every OpenAPI version (`assertedFormats`, written from the standard, not from the
  library's registration table); every other name (`int32`, `password`, vendor names) is an annotation.
-/
import SV.Model.C04

namespace SV.Spec.C04
open SV SV.Model.C04

/-! ### status keys -/

def isX (c : Char) : Bool := c == 'X' || c == 'x'

/-- the reversed key against `n`, least significant digit first -/
def matchRev : List Char → Nat → Bool
  | [], n => n == 0
  | c :: cs, n => (isX c || (c.isDigit && digitVal c == n % 10)) && matchRev cs (n / 10)

/-- key `k` covers status `n`: `k` is a non-empty string of digits and `X`s and `n` is the value of one of its
    instances -/
def keyMatches (k : List Char) (n : Nat) : Bool := !k.isEmpty && matchRev k.reverse n

/-- explicit code > range key (document order) > default -/
def specLookup (doc : Doc) (status : Nat) : Option RespDef :=
  match findKey (digitsOf status) doc.responses with
  | some d => some d
  | none =>
    match doc.responses.find? (fun kd => keyMatches kd.1 status) with
    | some kd => some kd.2
    | none => findKey defaultKey doc.responses

def devStatus (doc : Doc) (r : Resp) : Bool := (specLookup doc r.status).isNone

/-! ### media types -/

/-- type/subtype of a media type or Content-Type value: the text before the first `;`, trimmed, split at the first
    `/`, lower-cased -/
def refParse (s : List Char) : Option (List Char × List Char) :=
  match splitFirst '/' (strip (s.takeWhile (· != ';'))) with
  | some (m, t) => some (lower m, lower t)
  | none => none

/-- documented range `e` covers the received type `r` -/
def covers (e r : List Char × List Char) : Bool :=
  (e.1 == ['*'] || e.1 == r.1) && (e.2 == ['*'] || e.2 == r.2)

def specDocumentedTypes (doc : Doc) (r : Resp) : List (List Char) :=
  if doc.v2 then doc.produces
  else match specLookup doc r.status with
    | some d => d.content.map (·.name)
    | none => []

def coveredBy (rc : List Char × List Char) (opts : List (List Char)) : Bool :=
  opts.any fun o => match refParse o with
    | some e => covers e rc
    | none => false

def devContentType (doc : Doc) (r : Resp) : Bool :=
  let documented := specDocumentedTypes doc r
  !documented.isEmpty &&
  (match r.contentType with
   | none => true
   | some ct => match refParse ct with
     | none => true
     | some rc => !(coveredBy rc documented))

/-! ### headers -/

def headerDeviates (V : Json → Json → Bool) (fl : Flavour) (r : Resp) (h : HeaderDef) : Bool :=
  match lookupHeader (lower h.name) r.headers with
  | none => h.required
  | some value => !((readings fl h value).any (V (prepSchema h.schema)))

def devHeaders (V : Json → Json → Bool) (doc : Doc) (r : Resp) : Bool :=
  match specLookup doc r.status with
  | some d => d.headers.any (headerDeviates V doc.flavour r)
  | none => false

/-! ### body -/

/-- the schema documented for this response definition and received media type -/
def specSchema (doc : Doc) (d : RespDef) (rc : List Char × List Char) : Option Json :=
  if doc.v2 then d.schema2
  else match d.content.find? (fun m => match refParse m.name with | some e => covers e rc | none => false) with
    | some m => m.schema
    | none => none

def devBody (V : Json → Json → Bool) (doc : Doc) (r : Resp) : Bool :=
  match specLookup doc r.status, r.contentType with
  | some d, some ct =>
    (match refParse ct with
     | some rc =>
       isJsonMedia rc &&
       (match specSchema doc d rc with
        | some S => !(emptySchema S) && (match r.body with | some v => !(V S v) | none => true)
        | none => false)
     | none => false)
  | _, _ => false

def deviates (V : Json → Json → Bool) (doc : Doc) (r : Resp) : Bool :=
  devStatus doc r || devContentType doc r || devHeaders V doc r || devBody V doc r

/-! ### formats -/

/-- the defined formats of the JSON-Schema validation vocabulary (draft 2020-12, section 7.3: dates/times/duration,
    e-mail addresses, hostnames, IP addresses, resource identifiers, uri-template, JSON pointers, regex) -/
def assertedFormats : List String :=
  ["date-time", "date", "time", "duration",
   "email", "idn-email",
   "hostname", "idn-hostname",
   "ipv4", "ipv6",
   "uri", "uri-reference", "iri", "iri-reference", "uuid",
   "uri-template",
   "json-pointer", "relative-json-pointer",
   "regex"]

/-- a documented `format` is enforced iff it is one of the defined formats -/
def specFmt (F : String → Json → Bool) (f : String) (v : Json) : Bool := !(assertedFormats.contains f) || F f v

/-- deviation when validity `W` is parametrised by the format predicate: the specification hands it `specFmt F` -/
def deviatesF (W : (String → Json → Bool) → Json → Json → Bool) (F : String → Json → Bool) (doc : Doc) (r : Resp) : Bool :=
  deviates (W (specFmt F)) doc r

/-! ### well-formedness of documents and responses (hypotheses of the theorems, computed by the driver) -/

/-- a status key: `default`, or a non-empty string of digits and `X`/`x` -/
def keyWf (k : List Char) : Bool := k == defaultKey || (!k.isEmpty && k.all fun c => c.isDigit || isX c)

def keysWf (doc : Doc) : Bool := doc.responses.all fun kd => keyWf kd.1

/-- no `"` before the first `;` (the quote bookkeeping of `_parseparam` is then idle) -/
def plainMedia (s : List Char) : Bool := !((s.takeWhile (· != ';')).contains '"')

/-- a documented media type that is readable -/
def mediaWf (s : List Char) : Bool := plainMedia s && (refParse s).isSome

def docMediaWf (doc : Doc) : Bool :=
  doc.produces.all mediaWf && doc.responses.all fun kd => kd.2.content.all fun m => mediaWf m.name

/-- the received Content-Type is absent or has no early quote -/
def respMediaPlain (r : Resp) : Bool :=
  match r.contentType with
  | some ct => plainMedia ct
  | none => true

/-- Swagger 2.0: a response schema is documented only together with some `produces` (otherwise the media type of the
    body is undocumented and `validate_response` asks for a Content-Type nothing documents) -/
def producesWf (doc : Doc) : Bool :=
  !doc.v2 || !doc.produces.isEmpty ||
    doc.responses.all fun kd => match kd.2.schema2 with | none => true | some S => emptySchema S

/-- hypothesis of the `.asFound` lookup theorems: the status is documented explicitly, or by no range key at all -/
def noRangeOnly (doc : Doc) (status : Nat) : Bool :=
  (findKey (digitsOf status) doc.responses).isSome || doc.responses.all fun kd => !(keyMatches kd.1 status)

/-- hypothesis of the `.asFound` theorems: the Content-Type is absent, empty, or readable (else `is_json` raises) -/
def ctNoCrash (r : Resp) : Bool :=
  match r.contentType with
  | none => true
  | some ct => ct.isEmpty || (refParse ct).isSome

/-- hypothesis of the `.asFound` body theorem: every response documents at most one media type -/
def singleMedia (doc : Doc) : Bool := doc.responses.all fun kd => kd.2.content.length ≤ 1

/-- hypothesis of the `.asFound` header theorem: no required header is documented through a `$ref` -/
def noRequiredRefHeader (doc : Doc) : Bool :=
  doc.responses.all fun kd => kd.2.headers.all fun h => !(h.isRef && h.required)

/-- every keyword of the header schema survives `supported_jsonschema_keywords` -/
def keywordsSupported (fl : Flavour) (s : Json) : Bool :=
  match s with
  | .obj kvs => kvs.all fun kv => keepKey fl kv.1
  | _ => true

/-- the header schema is an inline object, not nullable, and its `type` is absent or a single name -/
def plainType (fl : Flavour) (h : HeaderDef) : Bool :=
  h.target.isNone &&
  (match h.schema with
   | .obj kvs =>
     (Json.lookup "$ref" kvs).isNone && !(isNullableTrue fl kvs) &&
     (match Json.lookup "type" kvs with
      | none => true
      | some (.str _) => true
      | some _ => false)
   | _ => false)

/-- hypothesis of the `.asFound` header theorem: every documented header schema uses supported keywords only and
    has a plain type -/
def plainHeaders (doc : Doc) : Bool :=
  doc.responses.all fun kd => kd.2.headers.all fun h => keywordsSupported doc.flavour h.schema && plainType doc.flavour h

end SV.Spec.C04
