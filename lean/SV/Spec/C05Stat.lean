/-
  SV.Spec.C05Stat — reference predicates for the CLI failure store, written from the property statement
  ("the failure is recorded with the request that caused it"; "no failure is ever lost: it reaches the report").
  They are used twice: in the theorems of SV/Props/C05.lean about the model, and — through the driver — to judge the
  store the real `ExecutionContext` ends with.
  Core Lean only.
-/
import SV.Model.C05Stat

namespace SV.Spec.C05Stat
open SV.Model.C05Stat

/-- the failures of the groups of one label, as a consumer iterating `groups.values()` reads them -/
def flatG (gs : List (Nat × Group)) : List Nat := gs.flatMap (·.2.failures)

/-- everything a consumer iterating `ctx.statistic.failures` reads (FAILURES section, failure counters) -/
def allF (F : List (Nat × List (Nat × Group))) : List Nat := F.flatMap (fun lg => flatG lg.2)

/-- number of groups in the store -/
def groupCount (F : List (Nat × List (Nat × Group))) : Nat := (F.map (·.2.length)).sum

/-- the case ids of a history, in order -/
def caseIds (h : List Recorder) : List Nat := h.flatMap (fun r => r.cases.map (·.id))

/-- a failing check of a case of scenario `r` carries failure `f` -/
def failsIn (r : Recorder) (f : Nat) : Prop := ∃ c ∈ r.cases, ∃ s, some (f, s) ∈ c.checks

def checkHas (f : Nat) : Check → Bool
  | some (g, _) => g == f
  | none => false

def caseHas (f : Nat) (c : CaseRec) : Bool := c.checks.any (checkHas f)

/-- the scenario label and the case in which failure `f` is seen first in the history -/
def firstSeen (f : Nat) : List Recorder → Option (Nat × CaseRec)
  | [] => none
  | r :: rest =>
    match r.cases.find? (caseHas f) with
    | some c => some (r.label, c)
    | none => firstSeen f rest

/-- the code samples carried by the failing checks of a case -/
def samplesOf (c : CaseRec) : List Nat := c.checks.filterMap (fun k => k.map (·.2))

/-- failure `f` is held by the group stored under label `l` and the id of case `c`, and that group names the case,
    its response and a code sample of one of its failing checks -/
def heldAt (F : List (Nat × List (Nat × Group))) (l : Nat) (c : CaseRec) (f : Nat) : Bool :=
  match ndGet l F with
  | none => false
  | some gs =>
    match ndGet c.id gs with
    | none => false
    | some g => g.caseId == c.id && g.failures.contains f && g.resp == c.resp && (samplesOf c).contains g.sample

/-- all failures carried by failing checks of the history, in order of appearance (with repetitions) -/
def failuresOf (h : List Recorder) : List Nat :=
  h.flatMap fun r => r.cases.flatMap fun c => c.checks.filterMap (fun k => k.map (·.1))

/-- verdict for one failure of the history on a store: how often the store holds it, and whether it is held where
    it was first seen -/
structure Verdict where
  failure : Nat
  count : Nat
  first : Option (Nat × Nat)     -- (label, case id) where it was first seen
  held : Bool
  deriving Repr, DecidableEq

def judge (h : List Recorder) (F : List (Nat × List (Nat × Group))) : List Verdict :=
  (failuresOf h).eraseDups.map fun f =>
    match firstSeen f h with
    | none => ⟨f, (allF F).count f, none, false⟩
    | some (l, c) => ⟨f, (allF F).count f, some (l, c.id), heldAt F l c f⟩

/-- the property on a store: every failure of the history exactly once, where it was first seen -/
def keepsAll (h : List Recorder) (F : List (Nat × List (Nat × Group))) : Bool :=
  (judge h F).all fun v => v.count == 1 && v.held

/-- failures held by the store that no failing check of the history carries -/
def invented (h : List Recorder) (F : List (Nat × List (Nat × Group))) : List Nat :=
  (allF F).filter fun f => !(failuresOf h).contains f

/-- number of cases of the history with / without recorded checks -/
def casesTotal (h : List Recorder) : Nat := (h.map (·.cases.length)).sum
def casesWithoutChecks (h : List Recorder) : Nat := (h.map fun r => (r.cases.filter (·.checks.isEmpty)).length).sum

end SV.Spec.C05Stat
