/-
  Reference reading of `style: form`, `explode: true` for an object-typed query parameter (OpenAPI 3.0 style table /
  RFC 6570 `{?keys*}`): every member is an entry of its own.  (The decoders for exploded arrays and deepObject are in
  SV/Spec/C06Style.lean.)
-/
import SV.Spec.C06Style
import SV.Model.C06Entries

namespace SV.Spec.C06
open SV.Model.C06

def decodeFormExplodedObject (entries : List (Str × Str)) : DVal := .obj entries

end SV.Spec.C06
