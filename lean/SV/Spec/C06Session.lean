/-
  Reference side of C06, part 3: what one received request may carry, written from the property statement
  ("the request carries the generated case and nothing else; only standard client headers, user-configured
  credentials / headers and the test-case id header are added") — for a request that is the n-th of a history of calls.

  The judgement of one request reads only: the case *as generated* (before any call), the configuration of *this* call
  (`params=`, `cookies=`) and, when the user passes a session of their own, the cookies that session holds by the user's
  doing (what the user put there and what the application set on earlier calls with that session).  It never reads what
  earlier calls sent or received otherwise: that is the statement.
-/
import SV.Model.C06Session

namespace SV.Spec.C06
open SV.Model.C06

/-- the cookies the call itself asks for: the generated ones, overridden by the configured ones -/
def ownCookies (c : CaseS) (a : Call) : Dict := dUpdate (c.cookies.getD []) (a.cookies.getD [])

/-- the query entries the call itself asks for -/
def ownQuery (c : CaseS) (a : Call) : Dict := dUpdate (c.query.getD []) (a.params.getD [])

/-- same mapping (order is not part of the contract) -/
def sameMap (x y : Dict) : Bool := (dKeys x ++ dKeys y).all fun k => dGet k x == dGet k y

/-- every entry of `x` is an entry of `y` -/
def subMap (x y : Dict) : Bool := x.all fun kv => dGet kv.1 y == some kv.2

/-- **cookies of one received request**: every cookie the call asks for arrives with its value, and every received cookie
    is one of those or is held by the session the user passed (no session: nothing else at all) -/
def cookiesOk (c : CaseS) (a : Call) (userJar : Option Dict) (wire : Dict) : Bool :=
  subMap (ownCookies c a) wire &&
  wire.all fun kv =>
    dGet kv.1 (ownCookies c a) == some kv.2 ||
    (dGet kv.1 (ownCookies c a) == none && match userJar with
      | some j => dGet kv.1 j == some kv.2
      | none => false)

/-- **query of one received request**: every received entry is a generated entry or the entry this call configures under
    that name, and a generated entry arrives unless the configuration of this call names the same parameter
    (the statement allows configured additions, it does not promise them) -/
def queryOk (c : CaseS) (a : Call) (wire : Dict) : Bool :=
  (wire.all fun kv => dGet kv.1 (ownQuery c a) == some kv.2 || dGet kv.1 (c.query.getD []) == some kv.2) &&
  (c.query.getD []).all fun kv => dGet kv.1 (a.params.getD []) != none || dGet kv.1 wire == some kv.2

/-- the request kept for reports is the request that was sent: the same query, no cookie that was not sent, and every
    sent cookie that the call asks for (cookies held by a session of the user's need not be repeated in the record) -/
def recordedOk (c : CaseS) (a : Call) (o : Out) : Bool :=
  sameMap o.recorded.query o.wire.query &&
  subMap o.recorded.cookies o.wire.cookies &&
  o.wire.cookies.all fun kv => dGet kv.1 (ownCookies c a) != some kv.2 || dGet kv.1 o.recorded.cookies == some kv.2

/-- the user's session as the specification tracks it: only `Set-Cookie` headers answered to calls made *with that
    session* change it (a call's own cookies are never kept) -/
def specUserJar (j : Dict) (a : Call) : Dict := if a.explicit then applySetCookies j a.setCookies else j

/-- **History independence**, the statement for a whole history: every request that is sent without a session of the
    user's carries exactly the cookies and query entries that its own case (as generated) and its own configuration ask
    for, the recorded request is the sent one, and no case is changed by being sent. -/
def HistoryIndependent (via : Via) (pol : ClientPolicy) (vm vp : Variant) : Prop :=
  ∀ (cl : Clients) (store : List CaseS) (calls : List (Nat × Call)),
    (∀ c ∈ store, WF (c.query.getD []) ∧ WF (c.cookies.getD [])) →
    ∀ e ∈ runTrace via pol vm vp cl store calls, ∀ c, store[e.ix]? = some c →
      e.caseAfter = c ∧
      (e.call.explicit = false →
        e.out.wire.cookies = ownCookies c e.call ∧ e.out.wire.query = ownQuery c e.call ∧ recordedOk c e.call e.out = true)

end SV.Spec.C06
