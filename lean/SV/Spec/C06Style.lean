/-
  Reference side of C06, part 2: OpenAPI 3.0 parameter styles (§4.7.12 "Style Values"/"Style Examples", RFC 6570)
  read as *decoders* of the text a server obtains after percent-decoding, and the string coercion of values.
  Written from the specification tables, not from the code.
-/
import SV.Model.C06Style

namespace SV.Spec.C06
open SV.Model.C06

/-- what can be read back from the wire: text, list of texts, list of key/text pairs -/
inductive DVal where
  | prim (s : Str)
  | arr (xs : List Str)
  | obj (kvs : List (Str × Str))
  deriving Repr, DecidableEq

/-- "up to string coercion": primitives are compared through their JSON spelling -/
def coerce : Val → DVal
  | .prim p => .prim (spell p)
  | .arr xs => .arr (xs.map spell)
  | .obj kvs => .obj (kvs.map fun (k, p) => (k, spell p))

/-- split on a one-character delimiter (always at least one part) -/
def splitOn (d : Nat) : Str → List Str
  | [] => [[]]
  | c :: cs =>
    if c = d then [] :: splitOn d cs
    else match splitOn d cs with
      | [] => [[c]]
      | p :: ps => (c :: p) :: ps

/-- k,v,k,v → pairs -/
def pairUp : List Str → Option (List (Str × Str))
  | [] => some []
  | [_] => none
  | k :: v :: rest => (pairUp rest).map ((k, v) :: ·)

/-- split `k=v` at the first "=" -/
def splitKV : Str → Option (Str × Str)
  | [] => none
  | c :: cs =>
    if c = 61 then some ([], cs)
    else (splitKV cs).map fun (k, v) => (c :: k, v)

def stripPrefix : Str → Str → Option Str
  | [], s => some s
  | _ :: _, [] => none
  | p :: ps, c :: cs => if p = c then stripPrefix ps cs else none

def mapM' {α β} (f : α → Option β) : List α → Option (List β)
  | [] => some []
  | x :: xs => match f x, mapM' f xs with
    | some y, some ys => some (y :: ys)
    | _, _ => none

def decList (d : Nat) (w : Str) : DVal := .arr (splitOn d w)
def decPairs (d : Nat) (w : Str) : Option DVal := (pairUp (splitOn d w)).map .obj
def decKVs (d : Nat) (w : Str) : Option DVal := (mapM' splitKV (splitOn d w)).map .obj

/-- the style of a cell after the defaults of OpenAPI 3.0 (path, header: simple; query, cookie: form) -/
def effStyle (c : Cell) : Style :=
  match c.style with
  | some s => s
  | none => match c.loc with
    | .path | .header => .simple
    | .query | .cookie => .form

/-- `explode` after its default (true for form, false otherwise) -/
def effExplode (c : Cell) : Bool :=
  match c.explode with
  | some b => b
  | none => effStyle c == .form

/-- the single-string wire shapes of the OpenAPI 3.0 style table -/
inductive Shape where
  | plain                    -- blue
  | list (d : Nat)           -- blue,black,brown   (d = "," | " " | "|")
  | pairs                    -- R,100,G,200,B,150
  | kvs (d : Nat)            -- R=100,G=200,B=150
  | labelPlain               -- .blue
  | labelList (d : Nat)      -- .blue,black,brown (RFC 6570 {.list}) / .blue.black.brown ({.list*})
  | labelPairs               -- .R,100,G,200,B,150
  | labelKvs                 -- .R=100.G=200.B=150
  | matrixPlain              -- ;color=blue
  | matrixList               -- ;color=blue,black,brown
  | matrixExploded           -- ;color=blue;color=black;color=brown
  | matrixPairs              -- ;color=R,100,G,200,B,150
  | matrixKvs                -- ;R=100;G=200;B=150
  deriving Repr, DecidableEq

/-- OpenAPI 3.0.3 §4.7.12.2 "Style Examples" (label non-exploded arrays per RFC 6570, as in 3.0.4 / 3.1):
    effective style × type × effective explode ↦ shape; `none`: no single-string form. -/
def refShape : Style → Ty → Bool → Option Shape
  | .simple, .other, _ => some .plain
  | .simple, .array, _ => some (.list 44)
  | .simple, .object, false => some .pairs
  | .simple, .object, true => some (.kvs 44)
  | .label, .other, _ => some .labelPlain
  | .label, .array, false => some (.labelList 44)
  | .label, .array, true => some (.labelList 46)
  | .label, .object, false => some .labelPairs
  | .label, .object, true => some .labelKvs
  | .matrix, .other, _ => some .matrixPlain
  | .matrix, .array, false => some .matrixList
  | .matrix, .array, true => some .matrixExploded
  | .matrix, .object, false => some .matrixPairs
  | .matrix, .object, true => some .matrixKvs
  | .form, .other, _ => some .plain
  | .form, .array, false => some (.list 44)
  | .form, .object, false => some .pairs
  | .spaceDelimited, .array, false => some (.list 32)
  | .pipeDelimited, .array, false => some (.list 124)
  | _, _, _ => none

/-- the decoder of each shape (on percent-decoded text) -/
def decodeShape (name : Str) : Shape → Str → Option DVal
  | .plain, w => some (.prim w)
  | .list d, w => some (decList d w)
  | .pairs, w => decPairs 44 w
  | .kvs d, w => decKVs d w
  | .labelPlain, w => (stripPrefix [46] w).map .prim
  | .labelList d, w => (stripPrefix [46] w).map (decList d)
  | .labelPairs, w => (stripPrefix [46] w).bind (decPairs 44)
  | .labelKvs, w => (stripPrefix [46] w).bind (decKVs 46)
  | .matrixPlain, w => (stripPrefix (59 :: name ++ [61]) w).map .prim
  | .matrixList, w => (stripPrefix (59 :: name ++ [61]) w).map (decList 44)
  | .matrixExploded, w =>
    (stripPrefix [59] w).bind fun r => (mapM' (stripPrefix (name ++ [61])) (splitOn 59 r)).map .arr
  | .matrixPairs, w => (stripPrefix (59 :: name ++ [61]) w).bind (decPairs 44)
  | .matrixKvs, w => (stripPrefix [59] w).bind (decKVs 59)

def cellShape (c : Cell) : Option Shape := refShape (effStyle c) c.ty (effExplode c)

/-- Decoder of one parameter that travels as **one** string (path segment, header value, one query/cookie value),
    per the OpenAPI 3.0 style table.  `none`: the table has no such single-string form for the cell, or the text is
    not of that form. -/
def decodeCell (c : Cell) (name : Str) (w : Str) : Option DVal :=
  (cellShape c).bind fun sh => decodeShape name sh w

/-- the cells of the table that denote a single-string form and are legal for their location -/
def singleStringCell (c : Cell) : Bool :=
  match c.loc, effStyle c, c.ty, effExplode c with
  | .path, .simple, _, _ | .path, .label, _, _ | .path, .matrix, _, _ => true
  | .header, .simple, _, _ => true
  | .query, .form, .other, _ | .query, .form, _, false => true
  | .query, .spaceDelimited, .array, false | .query, .pipeDelimited, .array, false => true
  | .cookie, .form, .other, _ | .cookie, .form, _, false => true
  | _, _, _, _ => false

/-- Cells of the table the serializer **as found** gets wrong because defaults are not applied (F32, F33): an absent
    `style` on a path parameter is not read as `simple`, an absent `explode` is read as neither true nor false. -/
def badDefaultsCell (c : Cell) : Bool :=
  (c.loc == .path && c.style == none && c.ty != .other) ||
  (c.explode == none && c.ty == .object && ((c.loc == .path && effStyle c == .simple) || c.loc == .header)) ||
  (c.explode == none && c.loc == .query && c.ty == .array &&
    (effStyle c == .spaceDelimited || effStyle c == .pipeDelimited))

/-- …and because the non-exploded matrix forms lack `name=` (F34) -/
def badMatrixCell (c : Cell) : Bool :=
  c.loc == .path && effStyle c == .matrix && c.ty != .other && !effExplode c

def knownBadCell (c : Cell) : Bool := badDefaultsCell c || badMatrixCell c

/-- cells for which the single-string round trip is claimed (`vt`: defaults site, `vm`: matrix site) -/
def goodCell (vt vm : Variant) (c : Cell) : Bool :=
  singleStringCell c && (vt == .repaired || !badDefaultsCell c) && (vm == .repaired || !badMatrixCell c)

/-- the value has the shape its declared type announces -/
def shapeOk : Ty → Val → Bool
  | .other, .prim _ => true
  | .array, .arr _ => true
  | .object, .obj _ => true
  | _, _ => false

/-- deepObject: `name[key]` → key -/
def deepKey (name key : Str) : Option Str :=
  (stripPrefix (name ++ [91]) key).bind fun r =>
    match r.reverse with
    | 93 :: k => some k.reverse
    | _ => none

/-- reference decoder for a parameter that is spread over several query entries -/
def decodeDeepObject (name : Str) (entries : List (Str × Str)) : DVal :=
  .obj (entries.filterMap fun (k, v) => (deepKey name k).map fun k' => (k', v))

def decodeFormExplodedArray (name : Str) (entries : List (Str × Str)) : DVal :=
  .arr (entries.filterMap fun (k, v) => if k = name then some v else none)

/-! ### hypotheses under which an unescaped join can be undone -/

/-- no item contains the delimiter -/
def noDelim (d : Nat) (xs : List Str) : Prop := ∀ x ∈ xs, d ∉ x

/-- as found, `str(item)` equals the JSON spelling exactly for strings and integers -/
def plain : Prim → Bool
  | .str _ | .int _ => true
  | _ => false

def allPlain : Val → Bool
  | .prim p => plain p
  | .arr xs => xs.all plain
  | .obj kvs => kvs.all fun kv => plain kv.2

/-- array items free of the delimiter, array non-empty -/
def ListOk (d : Nat) (xs : List Prim) : Prop := xs ≠ [] ∧ ∀ x ∈ xs, d ∉ spell x

/-- object for the `k,v,k,v` form -/
def PairsOk (kvs : List (Str × Prim)) : Prop := kvs ≠ [] ∧ ∀ kv ∈ kvs, 44 ∉ kv.1 ∧ 44 ∉ spell kv.2

/-- object for the `k=v<d>k=v` form -/
def KvsOk (d : Nat) (kvs : List (Str × Prim)) : Prop :=
  kvs ≠ [] ∧ ∀ kv ∈ kvs, d ∉ kv.1 ∧ 61 ∉ kv.1 ∧ d ∉ spell kv.2

/-- **The explicit hypothesis of the style round trip**: the value has the shape of its type, is non-empty, and no
    item / key contains the delimiter the shape joins with (nothing on the wire escapes it). -/
def Decodable (name : Str) : Shape → Val → Prop
  | .plain, .prim _ => True
  | .list d, .arr xs => ListOk d xs
  | .pairs, .obj kvs => PairsOk kvs
  | .kvs d, .obj kvs => KvsOk d kvs
  | .labelPlain, .prim p => p ≠ .null
  | .labelList d, .arr xs => ListOk d xs ∧ xs.map spell ≠ [[]]
  | .labelPairs, .obj kvs => PairsOk kvs
  | .labelKvs, .obj kvs => KvsOk 46 kvs
  | .matrixPlain, .prim p => p ≠ .null
  | .matrixList, .arr xs => ListOk 44 xs ∧ xs.map spell ≠ [[]]
  | .matrixExploded, .arr xs => ListOk 59 xs ∧ 59 ∉ name
  | .matrixPairs, .obj kvs => PairsOk kvs
  | .matrixKvs, .obj kvs => KvsOk 59 kvs
  | _, _ => False

/-- as found, `str(item)` is the JSON spelling only for strings and integers: the `str(item)` site is repaired, or
    the value contains no boolean / null -/
def StrOk (vs : Variant) (x : Val) : Prop := vs = .repaired ∨ allPlain x = true

/-- **Full statement of the style round trip** for the single-string cells of the OpenAPI table: whatever the
    declared style, explode and type, and whatever the value of that type, the text on the wire exists and the
    reference decoder of the declared style recovers the value up to string coercion — under the explicit
    "nothing inside the value contains the delimiter" hypothesis `Decodable` (unavoidable: the joins are unescaped). -/
def StyleRoundtrip (vt vm vs : Variant) : Prop :=
  ∀ (c : Cell) (name : Str) (x : Val) (sh : Shape), singleStringCell c = true → cellShape c = some sh →
    Decodable name sh x → ∃ w, cellWire vt vm vs c name x = some w ∧ decodeCell c name w = some (coerce x)

/-! ### UTF-8 (RFC 3629), strict reference decoder -/

/-- Unicode scalar values -/
def isScalar (cp : Nat) : Bool := cp < 1114112 && !(55296 ≤ cp && cp ≤ 57343)

/-- byte-at-a-time strict decoder: `need` continuation bytes outstanding, `acc` the bits so far, `lo` the smallest
    code point the current length may encode (overlong forms are rejected) -/
def utf8Dec : Nat → Nat → Nat → Bytes → Option Str
  | 0, _, _, [] => some []
  | _ + 1, _, _, [] => none
  | 0, _, _, b :: rest =>
    if b < 128 then (utf8Dec 0 0 0 rest).map (b :: ·)
    else if 194 ≤ b ∧ b < 224 then utf8Dec 1 (b - 192) 128 rest
    else if 224 ≤ b ∧ b < 240 then utf8Dec 2 (b - 224) 2048 rest
    else if 240 ≤ b ∧ b < 245 then utf8Dec 3 (b - 240) 65536 rest
    else none
  | n + 1, acc, lo, b :: rest =>
    if 128 ≤ b ∧ b < 192 then
      if n = 0 then
        if lo ≤ acc * 64 + (b - 128) ∧ isScalar (acc * 64 + (b - 128)) = true then
          (utf8Dec 0 0 0 rest).map ((acc * 64 + (b - 128)) :: ·)
        else none
      else utf8Dec n (acc * 64 + (b - 128)) lo rest
    else none

def utf8Decode (bs : Bytes) : Option Str := utf8Dec 0 0 0 bs

end SV.Spec.C06
