/-
  Reference semantics for C07, written from the property statement (not from the code):

  * an API description states *facts* about each operation: its HTTP method, path, name (`METHOD path`), tags,
    operationId, whether it is deprecated, and the truth of any user predicate / expression on its definition;
  * the user states *criteria*: attribute = value, attribute ∈ list, attribute matches pattern, predicate, deprecated;
    a tag criterion holds when some tag satisfies it; an absent attribute satisfies nothing; HTTP methods compare
    case-insensitively;
  * a filter is a conjunction of criteria; an operation is **selected** iff it satisfies at least one include filter
    (or there are none) and no exclude filter.
-/
import SV.Model.C07

namespace SV.Spec.C07
open SV.Model.C07

structure Facts where
  name : Str                 -- Open API: `METHOD path`; GraphQL: `Type.field`
  method : Str
  path : Str
  tags : List Str
  operationId : Option Str
  deprecated : Bool
  preds : List Bool
  deriving Repr

/-- an atomic criterion as the user states it -/
inductive Criterion where
  | is (a : Attr) (s : Str)
  | oneOf (a : Attr) (xs : List Str)
  | matches (a : Attr) (i : Nat)
  | deprecated
  | pred (i : Nat)
  deriving Repr, DecidableEq

/-- the values an attribute takes on an operation (none when absent) -/
def values (f : Facts) : Attr → List Str
  | .label => [f.name]
  | .method => [upper f.method]
  | .path => [f.path]
  | .tag => f.tags
  | .operationId => match f.operationId with
    | some s => [s]
    | none => []

/-- how a stated value is read: HTTP methods are case-insensitive -/
def norm (a : Attr) (s : Str) : Str :=
  match a with
  | .method => upper s
  | _ => s

def Criterion.holds (rx : Rx) (f : Facts) : Criterion → Bool
  | .is a s => (values f a).any fun v => v == norm a s
  | .oneOf a xs => (values f a).any fun v => xs.any fun x => v == norm a x
  | .matches a i => (values f a).any (rx i)
  | .deprecated => f.deprecated
  | .pred i => f.preds.getD i false

abbrev Conj := List Criterion

def conjHolds (rx : Rx) (f : Facts) (c : Conj) : Bool := c.all (·.holds rx f)

/-- the property's selection rule -/
def selected (rx : Rx) (includes excludes : List Conj) (f : Facts) : Bool :=
  (includes.isEmpty || includes.any (conjHolds rx f)) && !(excludes.any (conjHolds rx f))

/-! ### reading facts and criteria off model objects -/

/-- the facts visible through one filter context -/
def factsOfCtx (c : Ctx) : Facts :=
  ⟨c.label, c.method, c.path, c.view.tags.getD [], c.view.operationId, c.view.deprecated, c.view.fns⟩

/-- Open API: the name is `METHOD path` -/
def factsOf (o : Op) (vs : ViewSel) : Facts :=
  ⟨upper o.method ++ ' ' :: o.path, o.method, o.path, ((o.view vs).tags).getD [], (o.view vs).operationId,
   (o.view vs).deprecated, (o.view vs).fns⟩

def gqlFactsOf (o : Op) : Facts :=
  ⟨o.label, o.method, o.path, (o.res.tags).getD [], o.res.operationId, o.res.deprecated, o.res.fns⟩

/-- what a stored matcher means -/
def criterionOf : Matcher → Criterion
  | .value a (.one s) => .is a s
  | .value a (.many xs) => .oneOf a xs
  | .regex a i => .matches a i
  | .func .isDeprecated => .deprecated
  | .func (.user i) => .pred i

/-- what the keyword arguments of one `include(...)`/`exclude(...)` call mean (before any normalisation) -/
def critCriteria (a : Attr) (c : Crit) : Conj :=
  (match c.expected with
   | some (.one s) => [Criterion.is a s]
   | some (.many xs) => [Criterion.oneOf a xs]
   | none => [])
  ++ (match c.regex with
      | some i => [Criterion.matches a i]
      | none => [])

def funcCriteria : Option Fn → Conj
  | some .isDeprecated => [Criterion.deprecated]
  | some (.user i) => [Criterion.pred i]
  | none => []

def argsCriteria (a : FilterArgs) : Conj :=
  funcCriteria a.func
  ++ critCriteria .label a.name ++ critCriteria .method a.method ++ critCriteria .path a.path
  ++ critCriteria .tag a.tag ++ critCriteria .operationId a.operationId

/-- selection denoted by a stored filter set -/
def selectedFS (rx : Rx) (fs : FilterSet) (f : Facts) : Bool :=
  selected rx (fs.includes.map (·.map criterionOf)) (fs.excludes.map (·.map criterionOf)) f

/-! ### the documented meaning of the command-line options -/

/-- one `--include-X v` option contributes the single-criterion conjunction `X = v` -/
def cliValueConjs (a : Attr) (vs : List Str) : List Conj := vs.map fun s => [Criterion.is a s]

def optMatch (a : Attr) : Option Nat → Conj
  | some i => [Criterion.matches a i]
  | none => []

def optPred : Option Nat → List Conj
  | some i => [[Criterion.pred i]]
  | none => []

def optExclude (a : Attr) : Option Nat → List Conj
  | some i => [[Criterion.matches a i]]
  | none => []

/-- include side: every `--include-X v` is an alternative; all `--include-X-regex` options together form one
    alternative (a conjunction); `--include-by` is an alternative -/
def cliIncludes (c : CliArgs) : List Conj :=
  optPred c.includeBy
  ++ cliValueConjs .label c.includeName ++ cliValueConjs .method c.includeMethod ++ cliValueConjs .path c.includePath
  ++ cliValueConjs .tag c.includeTag ++ cliValueConjs .operationId c.includeOperationId
  ++ (let rxs := optMatch .label c.includeNameRegex ++ optMatch .method c.includeMethodRegex
                 ++ optMatch .path c.includePathRegex ++ optMatch .tag c.includeTagRegex
                 ++ optMatch .operationId c.includeOperationIdRegex
      if rxs.isEmpty then [] else [rxs])

/-- exclude side: every option is its own exclusion -/
def cliExcludes (c : CliArgs) : List Conj :=
  optPred c.excludeBy
  ++ cliValueConjs .label c.excludeName ++ cliValueConjs .method c.excludeMethod ++ cliValueConjs .path c.excludePath
  ++ cliValueConjs .tag c.excludeTag ++ cliValueConjs .operationId c.excludeOperationId
  ++ optExclude .label c.excludeNameRegex ++ optExclude .method c.excludeMethodRegex
  ++ optExclude .path c.excludePathRegex ++ optExclude .tag c.excludeTagRegex
  ++ optExclude .operationId c.excludeOperationIdRegex
  ++ (if c.excludeDeprecated then [[Criterion.deprecated]] else [])

def cliSelected (rx : Rx) (c : CliArgs) (f : Facts) : Bool := selected rx (cliIncludes c) (cliExcludes c) f

/-! ### documents -/

/-- the operations of a document: entries whose key is an HTTP method -/
def operations (doc : Doc) : List Op := doc.filter fun o => isHttp o.method

/-- the operations that must be offered -/
def offered (rx : Rx) (fs : FilterSet) (doc : Doc) : List Op :=
  (operations doc).filter fun o => selectedFS rx fs (factsOf o .res)

/-- links whose source and target are both offered (target looked up in the document) -/
def linkOffered (rx : Rx) (fs : FilterSet) (doc : Doc) (p : Op × Link) : Bool :=
  match resolveTarget doc p.2.target with
  | some t => (offered rx fs doc).contains p.1 && (offered rx fs doc).contains t
  | none => false

/-- lazy fixtures: the filters configured on the fixture's schema and on the lazy object are pooled
    (the same meaning as chaining the lazy object's calls on the fixture's schema) -/
def lazySelected (rx : Rx) (fixture lazy : FilterSet) (f : Facts) : Bool :=
  selected rx ((fixture.includes ++ lazy.includes).map (·.map criterionOf))
    ((fixture.excludes ++ lazy.excludes).map (·.map criterionOf)) f

def lazyOffered (rx : Rx) (fixture lazy : FilterSet) (doc : Doc) : List Op :=
  (operations doc).filter fun o => lazySelected rx fixture lazy (factsOf o .res)

def gqlOffered (rx : Rx) (fs : FilterSet) (doc : Doc) : List Op :=
  doc.filter fun o => selectedFS rx fs (gqlFactsOf o)

def cliOffered (rx : Rx) (c : CliArgs) (doc : Doc) : List Op :=
  (operations doc).filter fun o => cliSelected rx c (factsOf o .res)

/-! ### derivation histories

  What the property says about schemas derived from schemas: a schema is created once, with the filters of the
  schema it was derived from plus the filter its own `include`/`exclude` call states; it *is* that filter set from
  then on, whatever is derived from it (or from anything else) later.  So a history is a list of immutable values,
  one per object, in creation order, and a step can only append. -/

def vstep (v : Variant) (vals : List FilterSet) : HOp → List FilterSet
  | .derive p c =>
    match vals[p]? with
    | none => vals
    | some fs =>
      match applyCall fs c with
      | .error _ => vals
      | .ok fs' => vals ++ [fs']
  | .share p =>
    match vals[p]? with
    | none => vals
    | some fs => vals ++ [fs]
  | .resolve l f =>
    match vals[l]? with
    | none => vals
    | some lz =>
      match vals[f]? with
      | none => vals
      | some fx => vals ++ [lazyFilterSet v fx lz]
  | .adopt c =>
    match cliInto c with
    | .error _ => vals
    | .ok fs => vals ++ [fs]

def vrun (v : Variant) (vals : List FilterSet) : List HOp → List FilterSet
  | [] => vals
  | op :: ops => vrun v (vstep v vals op) ops

/-- the refusal a step must report -/
def vstepErr (vals : List FilterSet) : HOp → Option Err
  | .derive p c =>
    match vals[p]? with
    | none => none
    | some fs =>
      match applyCall fs c with
      | .error e => some e
      | .ok _ => none
  | .adopt c =>
    match cliInto c with
    | .error e => some e
    | .ok _ => none
  | _ => none

end SV.Spec.C07
