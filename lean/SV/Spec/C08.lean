/-
  Reference notions for C08, written from the property statement (not from the code):
  * the *effective parameters* of an operation are its own parameters followed by those path-level parameters
    that no operation-level parameter of the same name and location overrides;
  * every documented operation (an HTTP-method key of a path item) is offered or reported with its path;
  * a look-up by path and method, by operationId or by reference returns exactly the operation that iteration
    offers for that (path, method).
-/
import SV.Model.C08

namespace SV.Spec.C08
open SV.Model.C08

def overrides (o s : Param) : Bool := o.name = s.name && o.loc = s.loc

/-- operation-level parameters, then the path-level ones that are not overridden -/
def effective (op shared : List Param) : List Param :=
  op ++ shared.filter fun s => !(op.any fun o => overrides o s)

def inLoc (l : String) (ps : List Param) : List Param := ps.filter fun p => p.loc = some l

/-- the definition that ends up in the generated JSON schema for `name` (later entries overwrite earlier ones in
    `parameters_to_json_schema`) -/
def schemaWinner (name : String) (ps : List Param) : Option Param :=
  (ps.filter fun p => p.name = some name).getLast?

/-- no two parameters of the list share name and location -/
def distinctKeys : List Param → Bool
  | [] => true
  | p :: rest => !(rest.any fun q => overrides p q) && distinctKeys rest

/-- the offered containers are exactly the effective parameters, split by location (security parameters, which
    carry tag 0, are judged separately) -/
def conforms (op shared : List Param) (o : Operation) : Bool :=
  let eff := effective op shared
  let own := fun (ps : List Param) => ps.filter fun p => p.tag ≠ 0
  own o.pathParams = inLoc "path" eff && own o.headers = inLoc "header" eff &&
  own o.cookies = inLoc "cookie" eff && own o.query = inLoc "query" eff

/-! ### what the document documents -/

/-- labels of the documented operations in document order; an unusable path item is one label without method -/
def documentedItem (d : Doc) (p : String) (pe : PathEntry) : List (String × Option String) :=
  match resolvePathItem d base pe with
  | .error _ => [(p, none)]
  | .ok (scope, item) =>
    match resolveEntries d scope item.shared with
    | .error _ => [(p, none)]
    | .ok _ => (item.entries.filter fun e => httpMethods.contains e.1).map fun e => (p, some e.1)

def documented (d : Doc) : List (String × Option String) :=
  d.paths.flatMap fun (p, pe) => documentedItem d p pe

def label : Item → String × Option String
  | .ok o => (o.path, some o.method)
  | .err p m _ => (p, m)

/-! ### the abstract (path, method) ⇀ operation map -/

/-- the path item a path denotes (resolved from the root scope) -/
def itemOf (d : Doc) (p : String) : Except Err MapE :=
  match assoc p d.paths with
  | none => .error .key
  | some pe =>
    match resolvePathItem d base pe with
    | .error e => .error e
    | .ok (s, it) => .ok ⟨s, it⟩

/-- the operation documented at (path, method), with every reference resolved in the path item's scope -/
def abstractOp (cfg : Cfg) (d : Doc) (p m : String) : Except Err Operation :=
  match itemOf d p with
  | .error e => .error e
  | .ok me =>
    match assoc m me.item.entries with
    | none => .error .key
    | some od => buildIn cfg d me.scope me.scope p m me.item od

/-- keys are unique, as they are in the dictionaries the model's association lists stand for -/
def nodupKeys {α β : Type} [DecidableEq α] : List (α × β) → Bool
  | [] => true
  | (k, _) :: rest => (assoc k rest).isNone && nodupKeys rest

def wfItem (it : PathItem) : Bool := nodupKeys it.entries

def wfDoc (d : Doc) : Bool :=
  nodupKeys d.paths &&
  d.paths.all fun (_, pe) =>
    match resolvePathItem d base pe with
    | .error _ => true
    | .ok (_, it) => wfItem it

/-! ### reference answers of the look-ups (functions of the document alone) -/

/-- the operationId table of the whole document, as `_populate_operation_id_cache` builds it from the root scope -/
def allDefs (cfg : Cfg) (d : Doc) : List (String × IdE) := (populate cfg d base d.paths []).1

/-- building that table meets no unresolvable path item (or skips it, in the repaired variant) -/
def populateOk (cfg : Cfg) (d : Doc) : Bool := (populate cfg d base d.paths []).2.isNone

/-- operationIds are unique -/
def uniqueIds (cfg : Cfg) (d : Doc) : Bool := nodupKeys (allDefs cfg d)

/-- (path, method) documents an operation whose operationId is `i` -/
def hasId (d : Doc) (i p m : String) : Prop :=
  ∃ me od, itemOf d p = .ok me ∧ assoc m me.item.entries = some od ∧ httpMethods.contains m = true ∧ od.opId = some i

def idAnswer (cfg : Cfg) (d : Doc) (i : String) : Except Err Operation :=
  match assoc i (allDefs cfg d) with
  | none => .error .key
  | some en => abstractOp cfg d en.path en.method

/-- `#/paths/<path>/<method>` denotes an operation only when the path item is written in place -/
def refAnswer (cfg : Cfg) (d : Doc) (r : RefKey) : Except Err Operation :=
  match assoc r.path d.paths with
  | some (.inline item) =>
    match assoc r.method item.entries with
    | some _ => abstractOp cfg d r.path r.method
    | none => .error .ref
  | _ => .error .ref

/-- what a look-up answered, as a value: the operation or the class of the exception -/
def answer : Res → Except Err Operation
  | .op _ o => .ok o
  | .err e => .error e
  | _ => .error .key

/-- accesses the look-up theorems speak about: methods given to `schema[path][method]` are HTTP methods -/
def Access.http : Access → Bool
  | .byPM _ m => httpMethods.contains (lower m)
  | _ => true

/-- states of the schema object reachable by any sequence of accesses (complete iterations, step-wise iteration,
    the three look-ups, in any order). Stepping a suspended generator is only included when the generator does not
    keep the path item's scope pushed while suspended (repaired variant); with the code as found the theorems cover
    all orders of complete iterations and look-ups. -/
inductive Reach (cfg : Cfg) (d : Doc) : St → Prop where
  | init : Reach cfg d St.init
  | step (s : St) (a : Access) : Reach cfg d s → Access.http a = true →
      (cfg.suspend = .repaired ∨ a ≠ .iterNext) → Reach cfg d (step cfg d s a).1

/-- the state after a sequence of accesses -/
def runSt (cfg : Cfg) (d : Doc) : St → List Access → St
  | s, [] => s
  | s, a :: rest => runSt cfg d (step cfg d s a).1 rest

/-- an access the reachability relation admits -/
def Admitted (cfg : Cfg) (a : Access) : Prop :=
  Access.http a = true ∧ (cfg.suspend = .repaired ∨ a ≠ .iterNext)

end SV.Spec.C08
