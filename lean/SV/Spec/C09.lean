/-
  C09 — specification side, written from the property statement and from sh(1) / curl(1), not from the code:

  (a) `shParse`   POSIX-sh word splitting + quote removal of one simple command line, for the token language without
                  expansions: plain characters, '…', "…" (with its four backslash escapes), backslash outside quotes.
                  Anything that would need an expansion, an operator, a glob or a comment is outside the fragment
                  (`none`), and so is a NUL (it cannot be in a shell command line or an argv string).
  (b) `curlSem`   what `curl` does with an argument vector over the option subset the command can contain:
                  -X | --request, -H | --header, -d | --data | --data-ascii, --data-raw, -k | --insecure, -g | --globoff, one URL.
                  `-H` follows lib/http.c `Curl_add_custom_headers` (7.88): a header whose text after the colon is blank
                  is NOT sent; `name;` sends `name:` with an empty value; an argument starting with '@' names a file.
                  `-d` follows src/tool_getparam.c: a leading '@' names a file; repeated data is joined with '&'.
                  URL globbing follows src/tool_urlglob.c `glob_parse` (brackets/braces; `[]` is literal).
  (c) `reproduces` the property: the command, parsed by sh and interpreted by curl, sends method, URL and body of
                  the original request, only headers of the original, and every header of it which is not one
                  that curl / requests add on their own.
  Both (a) and (b) are validated against the real /bin/sh and the real curl by the harness on every run.
-/
import SV.Model.C09

namespace SV.Spec.C09
open SV.Model.C09

/-! ### (a) sh -/

inductive Mode | un | sq | dq | unBs | dqBs
  deriving DecidableEq, Repr

/-- characters that are not literal when unquoted (operators, expansions, globs, comment, tilde, history, braces,
    line ends). Conservative: a shell may treat some of them literally in some positions; the fragment refuses them. -/
def shSpecial (c : Char) : Bool :=
  c == '|' || c == '&' || c == ';' || c == '<' || c == '>' || c == '(' || c == ')' || c == '$' || c == '`'
    || c == '*' || c == '?' || c == '[' || c == ']' || c == '#' || c == '~' || c == '!' || c == '{' || c == '}'
    || c == '^' || c == '\n' || c == '\r'

def NUL : Char := Char.ofNat 0

def pushWord (w : Bool) (cur : Str) (done : List Str) : List Str := if w then cur.reverse :: done else done

/-- mode, "a word is open", current word (reversed), finished words (reversed), rest of the line -/
def shGo : Mode → Bool → Str → List Str → Str → Option (List Str)
  | .un, w, cur, done, [] => some (pushWord w cur done).reverse
  | _, _, _, _, [] => none                                            -- unterminated quote / trailing backslash
  | m, w, cur, done, c :: rest =>
    if c = NUL then none else
    match m with
    | .un =>
      if c = ' ' ∨ c = '\t' then shGo .un false [] (pushWord w cur done) rest
      else if c = '\'' then shGo .sq true cur done rest
      else if c = '"' then shGo .dq true cur done rest
      else if c = '\\' then shGo .unBs w cur done rest
      else if shSpecial c then none
      else shGo .un true (c :: cur) done rest
    | .unBs => if c = '\n' then shGo .un w cur done rest else shGo .un true (c :: cur) done rest
    | .sq => if c = '\'' then shGo .un true cur done rest else shGo .sq true (c :: cur) done rest
    | .dq =>
      if c = '"' then shGo .un true cur done rest
      else if c = '\\' then shGo .dqBs true cur done rest
      else if c = '$' ∨ c = '`' then none
      else shGo .dq true (c :: cur) done rest
    | .dqBs =>
      if c = '$' ∨ c = '`' ∨ c = '"' ∨ c = '\\' then shGo .dq true (c :: cur) done rest
      else if c = '\n' then shGo .dq true cur done rest
      else shGo .dq true (c :: '\\' :: cur) done rest

/-- the argument vector a POSIX shell builds from the command line (`none`: outside the fragment) -/
def shParse (line : Str) : Option (List Str) := shGo .un false [] [] line

/-! ### (b) curl -/

/-- ISSPACE of curl_ctype.h -/
def isCurlSpace (c : Char) : Bool :=
  c == ' ' || c == '\t' || c == '\n' || c == Char.ofNat 11 || c == Char.ofNat 12 || c == '\r'

/-- split at the first occurrence of `p` -/
def splitFirst (p : Char) : Str → Option (Str × Str)
  | [] => none
  | c :: cs => if c = p then some ([], cs) else (splitFirst p cs).map fun ab => (c :: ab.1, ab.2)

/-- the header (name, value as a receiver reads it) that one `-H` text puts on the wire, if any -/
def headerSent (h : Str) : Option (Str × Str) :=
  match splitFirst ':' h with
  | some (name, rest) =>
    if name.isEmpty then none
    else
      let v := rest.dropWhile isCurlSpace
      if v.isEmpty then none else some (name, v)
  | none =>
    match splitFirst ';' h with
    -- (7.88: the rewritten copy is compared with the original pointer, so even an empty name is sent, as `:`)
    | some (name, rest) => if rest.isEmpty then some (name, []) else none
    | none => none

/-- `glob_parse` accepts the URL as one literal: no braces, no bracket except the literal pair `[]`, no backslash
    in front of one of them (it would be removed). IPv6 host literals are not modelled (refused). -/
def globSafe : Str → Bool
  | [] => true
  | '[' :: ']' :: rest => globSafe rest
  | c :: rest =>
    if c = '[' ∨ c = ']' ∨ c = '{' ∨ c = '}' then false
    else if c = '\\' then
      (match rest with
       | d :: _ => !(d == '[' || d == ']' || d == '{' || d == '}')
       | [] => true) && globSafe rest
    else globSafe rest

inductive Pending | none | request | header | data | dataRaw
  deriving DecidableEq, Repr

inductive Opt | request | header | data | dataRaw | insecure | globoff | unknown | positional
  deriving DecidableEq, Repr

def classify (a : Str) : Opt :=
  if a = ['-', 'X'] ∨ a = "--request".toList then .request
  else if a = ['-', 'H'] ∨ a = "--header".toList then .header
  else if a = ['-', 'd'] ∨ a = "--data".toList ∨ a = "--data-ascii".toList then .data
  else if a = "--data-raw".toList then .dataRaw
  else if a = ['-', 'k'] ∨ a = "--insecure".toList then .insecure
  else if a = ['-', 'g'] ∨ a = "--globoff".toList then .globoff
  else match a with
    | '-' :: _ => .unknown
    | _ => .positional

structure CurlSt where
  pending : Pending
  method : Option Str
  headers : List (Str × Str)
  data : Option Str
  insecure : Bool
  globoff : Bool
  urls : List Str
  readsFile : Bool
  unsupported : Bool
  deriving DecidableEq, Repr

def CurlSt.init : CurlSt := ⟨.none, none, [], none, false, false, [], false, false⟩

def addData (old : Option Str) (s : Str) : Option Str :=
  match old with
  | none => some s
  | some o => some (o ++ '&' :: s)

def curlStep (st : CurlSt) (a : Str) : CurlSt :=
  match st.pending with
  | .request => { st with pending := .none, method := some a }
  | .header =>
    if startsWithAt a then { st with pending := .none, readsFile := true }
    else match headerSent a with
      | some kv => { st with pending := .none, headers := st.headers ++ [kv] }
      | none => { st with pending := .none }
  | .data =>
    if startsWithAt a then { st with pending := .none, readsFile := true }
    else { st with pending := .none, data := addData st.data a }
  | .dataRaw => { st with pending := .none, data := addData st.data a }
  | .none =>
    match classify a with
    | .request => { st with pending := .request }
    | .header => { st with pending := .header }
    | .data => { st with pending := .data }
    | .dataRaw => { st with pending := .dataRaw }
    | .insecure => { st with insecure := true }
    | .globoff => { st with globoff := true }
    | .unknown => { st with unsupported := true }
    | .positional => { st with urls := st.urls ++ [a] }

inductive CurlResult
  /-- one request: method, URL, the custom headers put on the wire (in order), the body, certificate checks off -/
  | request (method url : Str) (headers : List (Str × Str)) (body : Option Str) (insecure : Bool)
  /-- data or headers are taken from a local file named on the command line, not from the command line itself -/
  | readsFile
  /-- the URL is a glob pattern: zero or several requests, or a changed URL -/
  | globbed
  /-- outside the modelled option subset (unknown option, missing parameter, not exactly one URL, not `curl`) -/
  | unsupported
  deriving DecidableEq, Repr

def curlFinish (st : CurlSt) : CurlResult :=
  if st.unsupported || st.pending != .none then .unsupported
  else if st.readsFile then .readsFile
  else match st.urls with
    | [u] =>
      if !st.globoff && !globSafe u then .globbed
      else .request (st.method.getD (if st.data.isSome then "POST".toList else "GET".toList)) u st.headers st.data
        st.insecure
    | _ => .unsupported

def curlArgs (args : List Str) : CurlResult := curlFinish (args.foldl curlStep CurlSt.init)

def curlSem : List Str → CurlResult
  | [] => .unsupported
  | prog :: args => if prog = "curl".toList then curlArgs args else .unsupported

/-! ### (c) the property -/

/-- A header of the original request that curl / requests add on their own: its name is in the table and its value
    is the automatic one (`none` in the table: any value — framing and bookkeeping headers). -/
def isAuto (auto : Table) (kv : Str × Str) : Bool := isAutoValued auto kv.1 kv.2

/-- nothing invented (every header sent is a header of the original) and every non-automatic header of the original
    is sent. The order of different header fields is not significant in HTTP and is not compared here; that
    `generate` keeps it is a separate theorem (`generate_keeps_header_order`). -/
def headersOk (auto : Table) (orig sent : List (Str × Str)) : Bool :=
  (sent.all fun kv => orig.contains kv) && orig.all fun kv => isAuto auto kv || sent.contains kv

/-- a body is absent or non-empty -/
def bodyOf : Option Str → Option Str
  | some (c :: cs) => some (c :: cs)
  | _ => none

/-- the original request as the property sees it -/
structure Original where
  method : Str
  url : Str
  headers : List (Str × Str)
  body : Option Str
  verify : Bool

def sameRequest (auto : Table) (o : Original) : CurlResult → Bool
  | .request m u hs b k => m == o.method && u == o.url && bodyOf b == bodyOf o.body && k == !o.verify
      && headersOk auto o.headers hs
  | _ => false

/-- the printed command re-sends the original request -/
def reproduces (auto : Table) (o : Original) (cmd : Str) : Bool :=
  match shParse cmd with
  | some argv => sameRequest auto o (curlSem argv)
  | none => false

def original (r : Req) : Original := ⟨r.method, r.url, r.headers, r.body, r.verify⟩

/-! ### text payloads -/

/-- UTF-8 encoding of one character as byte values (the formula of Lean's `String.utf8EncodeChar`, in `Nat`;
    `utf8Enc_eq_core` proves the two equal) -/
def utf8Enc (c : Char) : List Nat :=
  let v := c.toNat
  if v ≤ 0x7f then [v]
  else if v ≤ 0x7ff then [v / 64 % 0x20 + 0xc0, v % 0x40 + 0x80]
  else if v ≤ 0xffff then [v / 4096 % 0x10 + 0xe0, v / 64 % 0x40 + 0x80, v % 0x40 + 0x80]
  else [v / 262144 % 0x08 + 0xf0, v / 4096 % 0x40 + 0x80, v / 64 % 0x40 + 0x80, v % 0x40 + 0x80]

/-- the bytes of a text payload -/
def utf8Encode (s : Str) : List Nat := s.flatMap utf8Enc

/-! ### well-formedness of a prepared request (what `requests` / HTTP syntax guarantee; hypotheses of the theorems) -/

def noNul (s : Str) : Bool := !s.contains NUL

/-- a method is printed unquoted: it must be a non-empty word of shell-safe characters (every HTTP token is) -/
def methodOk (m : Str) : Bool := !m.isEmpty && m.all isSafe

def nameOk (k : Str) : Bool :=
  !k.isEmpty && !k.contains ':' && !k.contains ';' && !startsWithAt k && noNul k

/-- `requests` rejects a header value with leading whitespace -/
def valueOk (v : Str) : Bool :=
  noNul v && match v with | [] => true | c :: _ => !isCurlSpace c

def urlOk (u : Str) : Bool :=
  noNul u && globSafe u && match u with | [] => false | c :: _ => c != '-'

def bodyOk : Option Str → Bool
  | none => true
  | some b => noNul b

def wf (r : Req) : Bool :=
  methodOk r.method && urlOk r.url && bodyOk r.body && r.headers.all fun kv => nameOk kv.1 && valueOk kv.2

/-- The property at full strength for one variant of the code: for every table of automatic headers and every
    well-formed prepared request the printed command re-sends the request. -/
def ReproducesAll (vs : Variants) : Prop :=
  ∀ (tbl : Table) (r : Req), wf r = true → reproduces tbl (original r) (generate vs tbl r) = true

/-! ### (d) which request a failure report stands for (written from the property statement, over the history)

  The property speaks of "the curl command shown for a test case" and "the original request": in a scenario the
  original request of test case `id` is the one most recently recorded for `id`, the test case is the one most
  recently recorded under `id`.  A failure is reported for the test case it names, and for the case under validation
  when it names none. -/

/-- the test case a failure is reported for -/
def failingId (validated : Str) (named : Option Str) : Str :=
  match named with
  | none => validated
  | some [] => validated
  | some n => n

def caseWrite (id : Str) : Op → Option CaseVal
  | .recordCase _ c => if c.id = id then some c else none
  | _ => none

def sentWrite (id : Str) : Op → Option Interaction
  | .recordResponse i r v => if i = id then some ⟨r, some v⟩ else none
  | .recordRequest i r => if i = id then some ⟨r, none⟩ else none
  | _ => none

/-- the test case most recently recorded under `id` -/
def lastCase (h : List Op) (id : Str) : Option CaseVal := h.reverse.findSome? (caseWrite id)

/-- the exchange most recently recorded for `id` -/
def lastSent (h : List Op) (id : Str) : Option Interaction := h.reverse.findSome? (sentWrite id)

/-- what the report of a failure of test case `id` has to be built from after the history `h`: that case, the
    headers of the request sent for it (first value of each), the `verify` flag of its response.  (Which exception
    is raised when something is missing is not part of the property; it is fixed here so that model and
    specification can be stated equal.) -/
def expectedData (h : List Op) (id : Str) : Except RecErr FailureData :=
  match lastCase h id with
  | none => .error .keyError
  | some c =>
    match lastSent h id with
    | none => .error .keyError
    | some ia =>
      match ia.verify with
      | none => .error .assertionError
      | some v =>
        match firstValues ia.request.headers with
        | .ok hs => .ok ⟨c, hs, v⟩
        | .error e => .error e

/-- the request that was sent for an exchange, as the property sees it -/
def sentOriginal (ia : Interaction) (headers : List (Str × Str)) (verify : Bool) : Original :=
  ⟨ia.request.method, ia.request.uri, headers, ia.request.body, verify⟩

/-- re-preparing the case with the headers of the request that was sent gives that request again, up to the order
    of the header fields (a statement about `requests` and the serializers; measured by the harness on every real
    case: `requests` puts the headers of the case before the ones passed in) -/
def Faithful (prep : Nat → List (Str × Str) → Prepared) (c : CaseVal) (ia : Interaction) (hs : List (Str × Str)) : Prop :=
  (prep c.obj hs).method = ia.request.method ∧ (prep c.obj hs).url = ia.request.uri
    ∧ (prep c.obj hs).body = ia.request.body ∧ ∀ kv, kv ∈ (prep c.obj hs).headers ↔ kv ∈ hs

/-- the prepared request as `generate` receives it -/
def preparedReq (p : Prepared) (verify : Bool) : Req := ⟨p.method, p.url, p.body, verify, p.headers, p.known⟩

end SV.Spec.C09
