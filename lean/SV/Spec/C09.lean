/-
  C09 — specification side, written from the property statement and from sh(1) / curl(1), not from the code:

  (a) `shParse`   POSIX-sh word splitting + quote removal of one simple command line, for the token language without
                  expansions: plain characters, '…', "…" (with its four backslash escapes), backslash outside quotes.
                  Anything that would need an expansion, an operator, a glob or a comment is outside the fragment
                  (`none`), and so is a NUL (it cannot be in a shell command line or an argv string).
  (b) `curlSem`   what `curl` does with an argument vector over the option subset the command can contain:
                  -X | --request, -H | --header, -d | --data | --data-ascii, --data-raw, -k | --insecure, -g | --globoff, one URL.
                  `-H` follows lib/http.c `Curl_add_custom_headers` (7.88): a header whose text after the colon is blank
                  is NOT sent; `name;` sends `name:` with an empty value; an argument starting with '@' names a file.
                  `-d` follows src/tool_getparam.c: a leading '@' names a file; repeated data is joined with '&'.
                  URL globbing follows src/tool_urlglob.c `glob_parse` (brackets/braces; `[]` is literal).
  (c) `reproduces` the property: the command, parsed by sh and interpreted by curl, sends method, URL and body of
                  the original request, only headers of the original, and every header of it which is not one
                  that curl / requests add on their own.
  Both (a) and (b) are validated against the real /bin/sh and the real curl by the harness on every run.
-/
import SV.Model.C09

namespace SV.Spec.C09
open SV.Model.C09

/-! ### (a) sh -/

inductive Mode | un | sq | dq | unBs | dqBs
  deriving DecidableEq, Repr

/-- characters that are not literal when unquoted (operators, expansions, globs, comment, tilde, history, braces,
    line ends). Conservative: a shell may treat some of them literally in some positions; the fragment refuses them. -/
def shSpecial (c : Char) : Bool :=
  c == '|' || c == '&' || c == ';' || c == '<' || c == '>' || c == '(' || c == ')' || c == '$' || c == '`'
    || c == '*' || c == '?' || c == '[' || c == ']' || c == '#' || c == '~' || c == '!' || c == '{' || c == '}'
    || c == '^' || c == '\n' || c == '\r'

def NUL : Char := Char.ofNat 0

def pushWord (w : Bool) (cur : Str) (done : List Str) : List Str := if w then cur.reverse :: done else done

/-- mode, "a word is open", current word (reversed), finished words (reversed), rest of the line -/
def shGo : Mode → Bool → Str → List Str → Str → Option (List Str)
  | .un, w, cur, done, [] => some (pushWord w cur done).reverse
  | _, _, _, _, [] => none                                            -- unterminated quote / trailing backslash
  | m, w, cur, done, c :: rest =>
    if c = NUL then none else
    match m with
    | .un =>
      if c = ' ' ∨ c = '\t' then shGo .un false [] (pushWord w cur done) rest
      else if c = '\'' then shGo .sq true cur done rest
      else if c = '"' then shGo .dq true cur done rest
      else if c = '\\' then shGo .unBs w cur done rest
      else if shSpecial c then none
      else shGo .un true (c :: cur) done rest
    | .unBs => if c = '\n' then shGo .un w cur done rest else shGo .un true (c :: cur) done rest
    | .sq => if c = '\'' then shGo .un true cur done rest else shGo .sq true (c :: cur) done rest
    | .dq =>
      if c = '"' then shGo .un true cur done rest
      else if c = '\\' then shGo .dqBs true cur done rest
      else if c = '$' ∨ c = '`' then none
      else shGo .dq true (c :: cur) done rest
    | .dqBs =>
      if c = '$' ∨ c = '`' ∨ c = '"' ∨ c = '\\' then shGo .dq true (c :: cur) done rest
      else if c = '\n' then shGo .dq true cur done rest
      else shGo .dq true (c :: '\\' :: cur) done rest

/-- the argument vector a POSIX shell builds from the command line (`none`: outside the fragment) -/
def shParse (line : Str) : Option (List Str) := shGo .un false [] [] line

/-! ### (b) curl -/

/-- ISSPACE of curl_ctype.h -/
def isCurlSpace (c : Char) : Bool :=
  c == ' ' || c == '\t' || c == '\n' || c == Char.ofNat 11 || c == Char.ofNat 12 || c == '\r'

/-- split at the first occurrence of `p` -/
def splitFirst (p : Char) : Str → Option (Str × Str)
  | [] => none
  | c :: cs => if c = p then some ([], cs) else (splitFirst p cs).map fun ab => (c :: ab.1, ab.2)

/-- the header (name, value as a receiver reads it) that one `-H` text puts on the wire, if any -/
def headerSent (h : Str) : Option (Str × Str) :=
  match splitFirst ':' h with
  | some (name, rest) =>
    if name.isEmpty then none
    else
      let v := rest.dropWhile isCurlSpace
      if v.isEmpty then none else some (name, v)
  | none =>
    match splitFirst ';' h with
    -- (7.88: the rewritten copy is compared with the original pointer, so even an empty name is sent, as `:`)
    | some (name, rest) => if rest.isEmpty then some (name, []) else none
    | none => none

/-- `glob_parse` accepts the URL as one literal: no braces, no bracket except the literal pair `[]`, no backslash
    in front of one of them (it would be removed). IPv6 host literals are not modelled (refused). -/
def globSafe : Str → Bool
  | [] => true
  | '[' :: ']' :: rest => globSafe rest
  | c :: rest =>
    if c = '[' ∨ c = ']' ∨ c = '{' ∨ c = '}' then false
    else if c = '\\' then
      (match rest with
       | d :: _ => !(d == '[' || d == ']' || d == '{' || d == '}')
       | [] => true) && globSafe rest
    else globSafe rest

inductive Pending | none | request | header | data | dataRaw
  deriving DecidableEq, Repr

inductive Opt | request | header | data | dataRaw | insecure | globoff | unknown | positional
  deriving DecidableEq, Repr

def classify (a : Str) : Opt :=
  if a = ['-', 'X'] ∨ a = "--request".toList then .request
  else if a = ['-', 'H'] ∨ a = "--header".toList then .header
  else if a = ['-', 'd'] ∨ a = "--data".toList ∨ a = "--data-ascii".toList then .data
  else if a = "--data-raw".toList then .dataRaw
  else if a = ['-', 'k'] ∨ a = "--insecure".toList then .insecure
  else if a = ['-', 'g'] ∨ a = "--globoff".toList then .globoff
  else match a with
    | '-' :: _ => .unknown
    | _ => .positional

structure CurlSt where
  pending : Pending
  method : Option Str
  headers : List (Str × Str)
  data : Option Str
  insecure : Bool
  globoff : Bool
  urls : List Str
  readsFile : Bool
  unsupported : Bool
  deriving DecidableEq, Repr

def CurlSt.init : CurlSt := ⟨.none, none, [], none, false, false, [], false, false⟩

def addData (old : Option Str) (s : Str) : Option Str :=
  match old with
  | none => some s
  | some o => some (o ++ '&' :: s)

def curlStep (st : CurlSt) (a : Str) : CurlSt :=
  match st.pending with
  | .request => { st with pending := .none, method := some a }
  | .header =>
    if startsWithAt a then { st with pending := .none, readsFile := true }
    else match headerSent a with
      | some kv => { st with pending := .none, headers := st.headers ++ [kv] }
      | none => { st with pending := .none }
  | .data =>
    if startsWithAt a then { st with pending := .none, readsFile := true }
    else { st with pending := .none, data := addData st.data a }
  | .dataRaw => { st with pending := .none, data := addData st.data a }
  | .none =>
    match classify a with
    | .request => { st with pending := .request }
    | .header => { st with pending := .header }
    | .data => { st with pending := .data }
    | .dataRaw => { st with pending := .dataRaw }
    | .insecure => { st with insecure := true }
    | .globoff => { st with globoff := true }
    | .unknown => { st with unsupported := true }
    | .positional => { st with urls := st.urls ++ [a] }

inductive CurlResult
  /-- one request: method, URL, the custom headers put on the wire (in order), the body, certificate checks off -/
  | request (method url : Str) (headers : List (Str × Str)) (body : Option Str) (insecure : Bool)
  /-- data or headers are taken from a local file named on the command line, not from the command line itself -/
  | readsFile
  /-- the URL is a glob pattern: zero or several requests, or a changed URL -/
  | globbed
  /-- outside the modelled option subset (unknown option, missing parameter, not exactly one URL, not `curl`) -/
  | unsupported
  deriving DecidableEq, Repr

def curlFinish (st : CurlSt) : CurlResult :=
  if st.unsupported || st.pending != .none then .unsupported
  else if st.readsFile then .readsFile
  else match st.urls with
    | [u] =>
      if !st.globoff && !globSafe u then .globbed
      else .request (st.method.getD (if st.data.isSome then "POST".toList else "GET".toList)) u st.headers st.data
        st.insecure
    | _ => .unsupported

def curlArgs (args : List Str) : CurlResult := curlFinish (args.foldl curlStep CurlSt.init)

def curlSem : List Str → CurlResult
  | [] => .unsupported
  | prog :: args => if prog = "curl".toList then curlArgs args else .unsupported

/-! ### (c) the property -/

/-- A header of the original request that curl / requests add on their own: its name is in the table and its value
    is the automatic one (`none` in the table: any value — framing and bookkeeping headers). -/
def isAuto (auto : Table) (kv : Str × Str) : Bool := isAutoValued auto kv.1 kv.2

/-- nothing invented (every header sent is a header of the original) and every non-automatic header of the original
    is sent. The order of different header fields is not significant in HTTP and is not compared here; that
    `generate` keeps it is a separate theorem (`generate_keeps_header_order`). -/
def headersOk (auto : Table) (orig sent : List (Str × Str)) : Bool :=
  (sent.all fun kv => orig.contains kv) && orig.all fun kv => isAuto auto kv || sent.contains kv

/-- a body is absent or non-empty -/
def bodyOf : Option Str → Option Str
  | some (c :: cs) => some (c :: cs)
  | _ => none

/-- the original request as the property sees it -/
structure Original where
  method : Str
  url : Str
  headers : List (Str × Str)
  body : Option Str
  verify : Bool

def sameRequest (auto : Table) (o : Original) : CurlResult → Bool
  | .request m u hs b k => m == o.method && u == o.url && bodyOf b == bodyOf o.body && k == !o.verify
      && headersOk auto o.headers hs
  | _ => false

/-- the printed command re-sends the original request -/
def reproduces (auto : Table) (o : Original) (cmd : Str) : Bool :=
  match shParse cmd with
  | some argv => sameRequest auto o (curlSem argv)
  | none => false

def original (r : Req) : Original := ⟨r.method, r.url, r.headers, r.body, r.verify⟩

/-! ### text payloads -/

/-- UTF-8 encoding of one character as byte values (the formula of Lean's `String.utf8EncodeChar`, in `Nat`;
    `utf8Enc_eq_core` proves the two equal) -/
def utf8Enc (c : Char) : List Nat :=
  let v := c.toNat
  if v ≤ 0x7f then [v]
  else if v ≤ 0x7ff then [v / 64 % 0x20 + 0xc0, v % 0x40 + 0x80]
  else if v ≤ 0xffff then [v / 4096 % 0x10 + 0xe0, v / 64 % 0x40 + 0x80, v % 0x40 + 0x80]
  else [v / 262144 % 0x08 + 0xf0, v / 4096 % 0x40 + 0x80, v / 64 % 0x40 + 0x80, v % 0x40 + 0x80]

/-- the bytes of a text payload -/
def utf8Encode (s : Str) : List Nat := s.flatMap utf8Enc

/-! ### well-formedness of a prepared request (what `requests` / HTTP syntax guarantee; hypotheses of the theorems) -/

def noNul (s : Str) : Bool := !s.contains NUL

/-- a method is printed unquoted: it must be a non-empty word of shell-safe characters (every HTTP token is) -/
def methodOk (m : Str) : Bool := !m.isEmpty && m.all isSafe

def nameOk (k : Str) : Bool :=
  !k.isEmpty && !k.contains ':' && !k.contains ';' && !startsWithAt k && noNul k

/-- `requests` rejects a header value with leading whitespace -/
def valueOk (v : Str) : Bool :=
  noNul v && match v with | [] => true | c :: _ => !isCurlSpace c

def urlOk (u : Str) : Bool :=
  noNul u && globSafe u && match u with | [] => false | c :: _ => c != '-'

def bodyOk : Option Str → Bool
  | none => true
  | some b => noNul b

def wf (r : Req) : Bool :=
  methodOk r.method && urlOk r.url && bodyOk r.body && r.headers.all fun kv => nameOk kv.1 && valueOk kv.2

/-- The property at full strength for one variant of the code: for every table of automatic headers and every
    well-formed prepared request the printed command re-sends the request. -/
def ReproducesAll (vs : Variants) : Prop :=
  ∀ (tbl : Table) (r : Req), wf r = true → reproduces tbl (original r) (generate vs tbl r) = true

/-! ### (d) which request a failure report stands for (written from the property statement, over the history)

  The property speaks of "the curl command shown for a test case" and "the original request": in a scenario the
  original request of test case `id` is the one most recently recorded for `id`, the test case is the one most
  recently recorded under `id`.  A failure is reported for the test case it names, and for the case under validation
  when it names none. -/

/-- the test case a failure is reported for -/
def failingId (validated : Str) (named : Option Str) : Str :=
  match named with
  | none => validated
  | some [] => validated
  | some n => n

def caseWrite (id : Str) : Op → Option CaseVal
  | .recordCase _ c => if c.id = id then some c else none
  | _ => none

def sentWrite (id : Str) : Op → Option Interaction
  | .recordResponse i r v => if i = id then some ⟨r, some v⟩ else none
  | .recordRequest i r => if i = id then some ⟨r, none⟩ else none
  | _ => none

/-- the test case most recently recorded under `id` -/
def lastCase (h : List Op) (id : Str) : Option CaseVal := h.reverse.findSome? (caseWrite id)

/-- the exchange most recently recorded for `id` -/
def lastSent (h : List Op) (id : Str) : Option Interaction := h.reverse.findSome? (sentWrite id)

/-- what the report of a failure of test case `id` has to be built from after the history `h`: that case, the
    headers of the request sent for it (first value of each), the `verify` flag of its response.  (Which exception
    is raised when something is missing is not part of the property; it is fixed here so that model and
    specification can be stated equal.) -/
def expectedData (h : List Op) (id : Str) : Except RecErr FailureData :=
  match lastCase h id with
  | none => .error .keyError
  | some c =>
    match lastSent h id with
    | none => .error .keyError
    | some ia =>
      match ia.verify with
      | none => .error .assertionError
      | some v =>
        match firstValues ia.request.headers with
        | .ok hs => .ok ⟨c, hs, v⟩
        | .error e => .error e

/-- the request that was sent for an exchange, as the property sees it -/
def sentOriginal (ia : Interaction) (headers : List (Str × Str)) (verify : Bool) : Original :=
  ⟨ia.request.method, ia.request.uri, headers, ia.request.body, verify⟩

/-- re-preparing the case with the headers of the request that was sent gives that request again, up to the order
    of the header fields (a statement about `requests` and the serializers; measured by the harness on every real
    case: `requests` puts the headers of the case before the ones passed in) -/
def Faithful (prep : Nat → List (Str × Str) → Prepared) (c : CaseVal) (ia : Interaction) (hs : List (Str × Str)) : Prop :=
  (prep c.obj hs).method = ia.request.method ∧ (prep c.obj hs).url = ia.request.uri
    ∧ (prep c.obj hs).body = ia.request.body ∧ ∀ kv, kv ∈ (prep c.obj hs).headers ↔ kv ∈ hs

/-- the prepared request as `generate` receives it -/
def preparedReq (p : Prepared) (verify : Bool) : Req := ⟨p.method, p.url, p.body, verify, p.headers, p.known⟩

/-! ### (e) "headers that curl / requests add on their own" — stated without looking at the code's table

  The property lets the command differ from the original request only in header fields that the two clients add by
  themselves.  What they add is a fact about the clients, not about schemathesis: the harness measures it on the real
  clients on every run (a request sent by the real transport for a case nobody set a header on; `curl` without any
  `-H`) and hands it to the specification as `Clients`.  Nothing below reads `get_excluded_headers()`.

  A header field of the original may be missing from the command only if
    (1) curl sends a field of that name with that value on its own (`curlAddsSame`: `Host` of the URL, `Accept: */*`,
        its `User-Agent`, and with data `Content-Length` of the data / `Content-Type: application/x-www-form-urlencoded`), or
    (2) it is a transport artefact (`isArtefact`): the framing of the body (`Content-Length`, `Transfer-Encoding` —
        the property compares the body itself), the label with the test case id, or a field `requests` puts on a
        request nobody set a header on, *with the value it puts there*. -/

structure Clients where
  /-- `User-Agent` of the curl binary (`curl/7.88.1`) -/
  curlAgent : Str
  /-- the header fields of a request sent by the real transport for a case without headers (`Host` and the label left out) -/
  requestsOwn : List (Str × Str)
  /-- the name of the field by which the transport labels a request with the id of its test case -/
  caseIdHeader : Str
  deriving Repr

def framingNames : List Str := [contentLength, transferEncoding]

def sameName (a b : Str) : Bool := lower a == lower b

/-- decimal digits of a number (`Content-Length`) -/
def decimal (n : Nat) : Str := (Nat.toDigits 10 n)

/-- `http://` / `https://` removed: (is https, rest) -/
def dropScheme : Str → Option (Bool × Str)
  | 'h' :: 't' :: 't' :: 'p' :: ':' :: '/' :: '/' :: rest => some (false, rest)
  | 'h' :: 't' :: 't' :: 'p' :: 's' :: ':' :: '/' :: '/' :: rest => some (true, rest)
  | _ => none

def dropSuffix (suffix s : Str) : Str :=
  if suffix.isSuffixOf s then s.take (s.length - suffix.length) else s

/-- the `Host` field a client derives from the URL: the authority without a default port. `none`: outside the
    fragment (no http(s) scheme, userinfo — curl would add `Authorization` —, IPv6 literal, empty host). -/
def hostOf (url : Str) : Option Str :=
  match dropScheme url with
  | none => none
  | some (https, rest) =>
    let a := rest.takeWhile fun c => !(c == '/' || c == '?' || c == '#')
    if a.isEmpty || a.contains '@' || a.contains '[' then none
    else some (dropSuffix (if https then ":443".toList else ":80".toList) a)

/-- the header fields curl puts on the wire by itself (lib/http.c 7.88 `Curl_http`): `Host`, `User-Agent`, `Accept`;
    when data is posted also `Content-Length` (bytes of the data) and `Content-Type` -/
def curlOwn (c : Clients) (url : Str) (data : Option Str) : List (Str × Str) :=
  (match hostOf url with | some h => [("Host".toList, h)] | none => [])
    ++ [(userAgent, c.curlAgent), ("Accept".toList, "*/*".toList)]
    ++ (match data with
        | some d => [(contentLength, decimal (utf8Encode d).length),
                     ("Content-Type".toList, "application/x-www-form-urlencoded".toList)]
        | none => [])

/-- the arguments consumed as the parameter of `-H` / `--header` -/
def headerTextsGo (st : CurlSt) : List Str → List Str
  | [] => []
  | a :: rest => (if st.pending = .header then [a] else []) ++ headerTextsGo (curlStep st a) rest

def headerTexts : List Str → List Str
  | [] => []
  | _ :: args => headerTextsGo CurlSt.init args

/-- the field name a `-H` text addresses (`Curl_checkheaders`: the text up to its first ':' or ';') -/
def textName (t : Str) : Str := t.takeWhile fun c => !(c == ':' || c == ';')

/-- a `-H` text with this name — whatever its value, even a blank one — makes curl leave out its own field -/
def addressed (texts : List Str) (name : Str) : Bool := texts.any fun t => sameName (textName t) name

/-- every header field curl sends: its own ones that no `-H` text addresses, then the custom ones -/
def wireOf (c : Clients) (texts : List Str) (url : Str) (data : Option Str) (custom : List (Str × Str)) : List (Str × Str) :=
  (curlOwn c url data).filter (fun d => !addressed texts d.1) ++ custom

def curlWire (c : Clients) (argv : List Str) : Option (List (Str × Str)) :=
  match curlSem argv with
  | .request _ u hs b _ => some (wireOf c (headerTexts argv) u b hs)
  | _ => none

def onWire (wire : List (Str × Str)) (kv : Str × Str) : Bool := wire.any fun w => sameName w.1 kv.1 && w.2 == kv.2

/-- (2) transport artefacts the property exempts -/
def isArtefact (c : Clients) (kv : Str × Str) : Bool :=
  (framingNames.any fun n => sameName n kv.1) || sameName c.caseIdHeader kv.1
    || c.requestsOwn.any fun o => sameName o.1 kv.1 && o.2 == kv.2

/-- (1) curl sends a field of this name with this value on its own for the original request -/
def curlAddsSame (c : Clients) (o : Original) (kv : Str × Str) : Bool := onWire (curlOwn c o.url (bodyOf o.body)) kv

/-- a header field of the original may be missing from the command only in these two cases -/
def mayOmit (c : Clients) (o : Original) (kv : Str × Str) : Bool := curlAddsSame c o kv || isArtefact c kv

/-- The property on the wire: sh + curl turn the command into one request with the method, URL, body and
    `--insecure` of the original; every custom field of it is a field of the original; every field of the original is
    among the fields curl sends (its own included) or is a transport artefact. -/
def reproducesOnWire (c : Clients) (o : Original) (cmd : Str) : Bool :=
  match shParse cmd with
  | none => false
  | some argv =>
    match curlSem argv with
    | .request m u hs b k =>
      m == o.method && u == o.url && bodyOf b == bodyOf o.body && k == !o.verify
        && (hs.all fun kv => o.headers.contains kv)
        && o.headers.all fun kv => onWire (wireOf c (headerTexts argv) u b hs) kv || isArtefact c kv
    | _ => false

/-- the same as a table for `reproduces`: the specification's own table of automatic fields for one original -/
def specAuto (c : Clients) (o : Original) : Table :=
  (framingNames ++ [c.caseIdHeader]).map (fun n => (n, none))
    ++ (c.requestsOwn ++ curlOwn c o.url (bodyOf o.body)).map fun kv => (kv.1, some kv.2)

/-- the part of it that does not depend on the request -/
def staticAuto (c : Clients) : Table :=
  (framingNames ++ [c.caseIdHeader]).map (fun n => (n, none))
    ++ (c.requestsOwn ++ [(userAgent, c.curlAgent), ("Accept".toList, "*/*".toList)]).map fun kv => (kv.1, some kv.2)

/-- does a table of the code hide only what is automatic for every request? (decidable, entry by entry: an entry
    "never shown" must be a framing field or the label, an entry with a value must be automatic with that value) -/
def tableWithin (c : Clients) (tbl : Table) : Bool :=
  tbl.all fun e =>
    match e.2 with
    | none => (framingNames.any fun n => sameName n e.1) || sameName c.caseIdHeader e.1
    | some d => isAutoValued (staticAuto c) e.1 d

/-- the entries of a table that are not within the specification (what the harness builds directed inputs from) -/
def tableOutside (c : Clients) (tbl : Table) : Table := tbl.filter fun e => !tableWithin c [e]

/-- `requests` keeps one field per lower-cased name (CaseInsensitiveDict) -/
def namesUnique : List (Str × Str) → Bool
  | [] => true
  | kv :: rest => !(rest.any fun x => sameName x.1 kv.1) && namesUnique rest

/-- What the measured clients must agree on with the inputs of `get_excluded_headers()` (checked by the harness on
    every run; a statement about `requests` and the transport, not about curl.py): `requests` really puts each of the
    defaults it reports on a request nobody set a header on, except that the transport replaces `User-Agent` by
    `ua`; it spells that name `User-Agent`; the label is the field named `caseIdHeader`. -/
def ClientsAgree (c : Clients) (defaults : List (Str × Str)) (ua caseIdHeader : Str) : Prop :=
  (∀ kv ∈ defaults, sameName kv.1 userAgent = false → isArtefact c kv = true)
    ∧ isArtefact c (userAgent, ua) = true
    ∧ (∀ kv ∈ defaults, sameName kv.1 userAgent = true → kv.1 = userAgent)
    ∧ sameName c.caseIdHeader caseIdHeader = true

/-! ### (f) output sanitization enabled: "only the redacted values may differ"

  The command is judged against the original request as before, except that a header value or the value of a query
  parameter may be shown as the replacement text (in one of its spellings: literal, percent-encoded) instead of the
  original value.  Method, the URL up to its query values, the body, the names of all fields and every value that is
  not shown as the replacement must be those of the original. -/

/-- a value in the sanitized command against the original's: the same, or one of the spellings of the replacement -/
def valueRedacted (markers : List Str) (orig shown : Str) : Bool := orig == shown || markers.contains shown

/-- split at every occurrence of `c` -/
def splitAll (c : Char) : Str → List Str
  | [] => [[]]
  | x :: xs =>
    if x = c then [] :: splitAll c xs
    else match splitAll c xs with
      | [] => [[x]]
      | w :: ws => (x :: w) :: ws

def pairOf (s : Str) : Str × Str :=
  match splitFirst '=' s with
  | some kv => kv
  | none => (s, [])

/-- (what precedes the first '?', the query) -/
def splitQuery (u : Str) : Str × Option Str :=
  match splitFirst '?' u with
  | some (b, q) => (b, some q)
  | none => (u, none)

/-! query strings are compared as a form decoder reads them (`%XX`, '+'): re-encoding a parameter is not a difference -/

def hexVal (c : Char) : Option Nat :=
  if '0' ≤ c ∧ c ≤ '9' then some (c.toNat - 48)
  else if 'a' ≤ c ∧ c ≤ 'f' then some (c.toNat - 87)
  else if 'A' ≤ c ∧ c ≤ 'F' then some (c.toNat - 55)
  else none

inductive PMode | lit | p1 | p2 (a : Char)

def litStep (c : Char) : List Nat × PMode :=
  if c = '+' then ([32], .lit) else if c = '%' then ([], .p1) else (utf8Enc c, .lit)

/-- `urllib.parse.unquote_to_bytes(s.replace("+", " "))`: an incomplete or non-hex escape stays literal -/
def formGo : PMode → Str → List Nat
  | .lit, [] => []
  | .p1, [] => [37]
  | .p2 a, [] => 37 :: utf8Enc a
  | .lit, c :: r => (litStep c).1 ++ formGo (litStep c).2 r
  | .p1, c :: r => if (hexVal c).isSome then formGo (.p2 c) r else 37 :: ((litStep c).1 ++ formGo (litStep c).2 r)
  | .p2 a, c :: r =>
    match hexVal a, hexVal c with
    | some x, some y => (16 * x + y) :: formGo .lit r
    | _, _ => 37 :: (utf8Enc a ++ ((litStep c).1 ++ formGo (litStep c).2 r))

def formDecode (s : Str) : List Nat := formGo .lit s

/-- a query value in the sanitized command against the original's: the same once decoded, or the replacement text -/
def queryValueRedacted (markers : List Str) (orig shown : Str) : Bool :=
  formDecode orig == formDecode shown || markers.any fun m => formDecode shown == utf8Encode m

/-- parameter by parameter, in order; names compared decoded -/
def queryPairsRedacted (markers : List Str) : List (Str × Str) → List (Str × Str) → Bool
  | [], [] => true
  | (k, v) :: ps, (k', v') :: ss =>
    formDecode k == formDecode k' && queryValueRedacted markers v v' && queryPairsRedacted markers ps ss
  | _, _ => false

/-- the parameters of a query string (`parse_qsl(keep_blank_values=True)`: empty segments dropped, no '=' is a blank value) -/
def queryParams (q : Str) : List (Str × Str) := ((splitAll '&' q).filter fun seg => !seg.isEmpty).map pairOf

def queryRedacted (markers : List Str) : Option Str → Option Str → Bool
  | none, none => true
  | some p, some s => queryPairsRedacted markers (queryParams p) (queryParams s)
  | some p, none => (queryParams p).isEmpty
  | none, some s => (queryParams s).isEmpty

/-- the fragment (from the first '#'; no client sends it) -/
def urlFragment (u : Str) : Option Str := (splitFirst '#' u).map (·.2)

def dropFragment (u : Str) : Str :=
  match splitFirst '#' u with
  | some (a, _) => a
  | none => u

/-- scheme, authority and path -/
def urlBase (u : Str) : Str := (splitQuery (dropFragment u)).1

def urlQuery (u : Str) : Option Str := (splitQuery (dropFragment u)).2

/-- the URL up to redacted query values -/
def urlRedacted (markers : List Str) (orig shown : Str) : Bool :=
  urlBase orig == urlBase shown && urlFragment orig == urlFragment shown
    && queryRedacted markers (urlQuery orig) (urlQuery shown)

def fieldRedacted (markers : List Str) (o s : Str × Str) : Bool := o.1 == s.1 && valueRedacted markers o.2 s.2

/-- `headersOk` up to redacted values: nothing invented, nothing but automatic fields missing -/
def headersOkRedacted (markers : List Str) (auto : Table) (orig sent : List (Str × Str)) : Bool :=
  (sent.all fun kv => orig.any fun o => fieldRedacted markers o kv)
    && orig.all fun o => isAuto auto o || sent.any fun kv => fieldRedacted markers o kv

def sameRequestRedacted (markers : List Str) (auto : Table) (o : Original) : CurlResult → Bool
  | .request m u hs b k => m == o.method && urlRedacted markers o.url u && bodyOf b == bodyOf o.body && k == !o.verify
      && headersOkRedacted markers auto o.headers hs
  | _ => false

/-- the property with sanitization enabled -/
def reproducesRedacted (markers : List Str) (auto : Table) (o : Original) (cmd : Str) : Bool :=
  match shParse cmd with
  | some argv => sameRequestRedacted markers auto o (curlSem argv)
  | none => false

end SV.Spec.C09
