/-
  Reference semantics for C10, written from the property statement and the standards it names — not from the code:
  * RFC 6901 JSON pointers: reference tokens, `~0`/`~1` escaping (one pass), array indices `0 | [1-9][0-9]*`;
  * OpenAPI response keys: exact code, `NXX` wildcard, `default` = no other documented key matches;
  * the OpenAPI runtime-expression grammar (+ `{…}` embedding and the `#regex:` extension) as an abstract syntax
    with its concrete rendering, and a reference evaluator over that syntax;
  * what a derived request must contain.
-/
import SV.Model.C10

namespace SV.Spec.C10
open SV.Model.C10

/-! ## RFC 6901 -/

/-- §3: `~` ↦ `~0`, `/` ↦ `~1` -/
def escape : Str → Str
  | [] => []
  | c :: t =>
    if c == '~' then '~' :: '0' :: escape t
    else if c == '/' then '~' :: '1' :: escape t
    else c :: escape t

/-- §4: decoding in a single left-to-right pass (`~1` ↦ `/`, `~0` ↦ `~`), so that `~01` becomes `~1` -/
def decode : Str → Str
  | [] => []
  | [x] => [x]
  | x :: y :: t =>
    if x == '~' && y == '0' then '~' :: decode t
    else if x == '~' && y == '1' then '/' :: decode t
    else x :: decode (y :: t)

/-- the raw (still escaped) reference tokens of the text after the leading `/` -/
def rawTokens (cur : Str) : Str → List Str
  | [] => [cur.reverse]
  | c :: t => if c == '/' then cur.reverse :: rawTokens [] t else rawTokens (c :: cur) t

/-- §3: a pointer is empty or a sequence of `/`-prefixed reference tokens; `none`: not a JSON pointer -/
def refTokens : Str → Option (List Str)
  | [] => some []
  | c :: t => if c == '/' then some ((rawTokens [] t).map decode) else none

/-- the pointer that addresses the path `toks` -/
def mkPointer (toks : List Str) : Str := (toks.map fun t => '/' :: escape t).flatten

/-- §4: objects by member name, arrays by a canonical decimal index; everything else has no children -/
def specStep (target : J) (tok : Str) : Option J :=
  match target with
  | .obj kvs => lookup tok kvs
  | .arr xs => (rfcIndex tok).bind fun i => xs[i]?
  | _ => none

def specWalk : J → List Str → Val
  | t, [] => .ok t
  | t, tok :: rest =>
    match specStep t tok with
    | none => .unres
    | some t' => specWalk t' rest

def specResolve (doc : J) (p : Str) : Val :=
  match refTokens p with
  | none => .unres
  | some toks => specWalk doc toks

/-- a reference token that Python's `int()` accepts although RFC 6901 does not make it an array index -/
def lenientIndex (tok : Str) : Bool := (pyInt tok).isSome && (rfcIndex tok).isNone

/-! ## response keys -/

def isX (c : Char) : Bool := c == 'X' || c == 'x'

/-- key pattern against the decimal digits of the status, right to left (`X` = any digit) -/
def patMatchR : Str → Nat → Bool
  | [], s => s == 0
  | c :: rest, s => (isX c || (isAsciiDigit c && digitVal c == s % 10)) && patMatchR rest (s / 10)

def keyMatches (key : Str) (status : Nat) : Bool := patMatchR key.reverse status

def validKey (key : Str) : Bool := !key.isEmpty && key.all fun c => isX c || isAsciiDigit c

/-- a link under response key `key` may be followed from a response with this status -/
def specFollows (key : Str) (allKeys : List Str) (status : Nat) : Bool :=
  if key == sDefault then allKeys.all fun k => k == sDefault || !keyMatches k status
  else keyMatches key status

/-! ## runtime expressions: abstract syntax, concrete syntax, reference evaluation -/

inductive Source where
  | header (name : Str) (rx : Option Str)
  | query (name : Str) (rx : Option Str)
  | path (name : Str) (rx : Option Str)
  | body (ptr : Option Str)            -- the json-pointer after `#`
  deriving Repr, DecidableEq

inductive Expr where
  | url | method | statusCode
  | request (s : Source)
  | response (s : Source)
  deriving Repr, DecidableEq

/-- one piece of a link value: literal text without dots, a dot, or an embedded `{expression}` -/
inductive Part where
  | lit (s : Str)
  | dot
  | emb (e : Expr)
  deriving Repr, DecidableEq

inductive Template where
  | bare (e : Expr)                    -- the whole value is one expression: its value keeps its JSON type
  | parts (ps : List Part)             -- text with embedded expressions: the result is a string
  deriving Repr

def renderRx : Option Str → Str
  | none => []
  | some p => regexPrefix ++ p

def renderSource : Source → Str
  | .header n rx => sHeader ++ '.' :: n ++ renderRx rx
  | .query n rx => sQuery ++ '.' :: n ++ renderRx rx
  | .path n rx => sPath ++ '.' :: n ++ renderRx rx
  | .body none => sBody
  | .body (some p) => sBody ++ '#' :: p

def renderExpr : Expr → Str
  | .url => kwUrl
  | .method => kwMethod
  | .statusCode => kwStatusCode
  | .request s => kwRequest ++ '.' :: renderSource s
  | .response s => kwResponse ++ '.' :: renderSource s

def renderPart : Part → Str
  | .lit s => s
  | .dot => ['.']
  | .emb e => '{' :: renderExpr e ++ ['}']

def render : Template → Str
  | .bare e => renderExpr e
  | .parts ps => (ps.map renderPart).flatten

/-- names the lexer can carry: non-empty, none of `$ . { } #` -/
def wfName (n : Str) : Bool := !n.isEmpty && n.all fun c => !isStop c

def noRBrace (s : Str) : Bool := s.all fun c => !isRBrace c

def wfRx (rx : RxOracle) : Option Str → Bool
  | none => true
  | some p => noRBrace p && rx p == some 1

def wfSource (rx : RxOracle) (resp : Bool) : Source → Bool
  | .header n r => wfName n && wfRx rx r
  | .query n r => !resp && wfName n && wfRx rx r
  | .path n r => !resp && wfName n && wfRx rx r
  | .body none => true
  | .body (some p) => noRBrace p

def wfExpr (rx : RxOracle) : Expr → Bool
  | .request s => wfSource rx false s
  | .response s => wfSource rx true s
  | _ => true

/-- literal text: non-empty, none of `$ . { } #` -/
def wfLit (s : Str) : Bool := wfName s

/-- no two literal parts in a row (they would be one literal) -/
def noAdjacentLits : List Part → Bool
  | [] => true
  | .lit _ :: rest => (match rest with | .lit _ :: _ => false | _ => true) && noAdjacentLits rest
  | _ :: rest => noAdjacentLits rest

/-- inside `{…}` a whole body reference (`body` without pointer) is legal by the grammar -/
def wfPart (rx : RxOracle) : Part → Bool
  | .lit s => wfLit s
  | .dot => true
  | .emb e => wfExpr rx e

def wfTemplate (rx : RxOracle) : Template → Bool
  | .bare e => wfExpr rx e
  | .parts ps => ps.all (wfPart rx) && noAdjacentLits ps

/-- the node each piece of syntax denotes -/
def nodeOfExpr : Expr → Node
  | .url => .url
  | .method => .method
  | .statusCode => .statusCode
  | .request (.header n r) => .nonBodyRequest sHeader n r
  | .request (.query n r) => .nonBodyRequest sQuery n r
  | .request (.path n r) => .nonBodyRequest sPath n r
  | .request (.body p) => .bodyRequest (p.map ('#' :: ·))
  | .response (.header n r) => .headerResponse n r
  | .response (.body p) => .bodyResponse (p.map ('#' :: ·))
  | .response (.query n _) => .str n        -- not well-formed; never used
  | .response (.path n _) => .str n         -- not well-formed; never used

def nodeOfPart : Part → Node
  | .lit s => .str s
  | .dot => .str ['.']
  | .emb e => nodeOfExpr e

def nodesOf : Template → List Node
  | .bare e => [nodeOfExpr e]
  | .parts ps => ps.map nodeOfPart

/-- does a part contain an embedded whole-body reference (`{$request.body}`)? -/
def isWholeBody : Part → Bool
  | .emb (.request (.body none)) => true
  | .emb (.response (.body none)) => true
  | _ => false

/-! ### reference evaluation (on the syntax, with RFC 6901 pointers) -/

def specSource (ext : ExtOracle) (ctx : Ctx) (resp : Bool) : Source → Except EErr Val
  | .body ptr =>
    if resp then
      match ctx.respBody with
      | none => .error .jsonError
      | some d => .ok (match ptr with | none => .ok d | some p => specResolve d p)
    else .ok (match ptr with | none => .ok ctx.reqBody | some p => specResolve ctx.reqBody p)
  | .header n r =>
    if resp then
      match lookup (lower n) ctx.respHeaders with
      | none => .ok .unres
      | some [] => .error .indexError
      | some (v :: _) => withExtractor ext r (some (.str v))
    else withExtractor ext r (lookupCI n (ctx.headers.getD []))
  | .query n r => withExtractor ext r (lookup n (ctx.query.getD []))
  | .path n r => withExtractor ext r (lookup n (ctx.path.getD []))

def specExpr (ext : ExtOracle) (ctx : Ctx) : Expr → Except EErr Val
  | .url => .ok (.ok (.str ctx.url))
  | .method => .ok (.ok (.str (upper ctx.method)))
  | .statusCode => .ok (.ok (.str (natStr ctx.status)))
  | .request s => specSource ext ctx false s
  | .response s => specSource ext ctx true s

def specPart (ext : ExtOracle) (ctx : Ctx) : Part → Except EErr Val
  | .lit s => .ok (.ok (.str s))
  | .dot => .ok (.ok (.str ['.']))
  | .emb e => specExpr ext ctx e

def specParts (ext : ExtOracle) (ctx : Ctx) : List Part → Except EErr (List Val)
  | [] => .ok []
  | p :: ps =>
    match specPart ext ctx p with
    | .error e => .error e
    | .ok v =>
      match specParts ext ctx ps with
      | .error e => .error e
      | .ok vs => .ok (v :: vs)

/-- what a link value denotes on a source exchange -/
def specEval (ext : ExtOracle) (ctx : Ctx) : Template → Except EErr Val
  | .bare e => specExpr ext ctx e
  | .parts ps =>
    match specParts ext ctx ps with
    | .error x => .error x
    | .ok [p] => .ok p
    | .ok vals =>
      if vals.any Val.isUnres then .ok .unres
      else match joinParts vals with
        | .error x => .error x
        | .ok s => .ok (.ok (.str s))

/-- braces (the bracket tokens, i.e. every `{` / `}` outside a pointer) open and close embeddings one at a time:
    never nested, never closed when not open, closed at the end. `opened` = an embedding is currently open. -/
def braceBalanced : Bool → List TokType → Bool
  | opened, [] => !opened
  | opened, .lbracket :: rest => !opened && braceBalanced true rest
  | opened, .rbracket :: rest => opened && braceBalanced false rest
  | opened, _ :: rest => braceBalanced opened rest

/-! ## the derived request -/

/-- the value a link finally supplies for `name` in a container: its last definition, if that evaluated to a
    usable value (`Ok`, not `None`, not UNRESOLVABLE) -/
def supplied (data : List (Str × Extracted)) (name : Str) : Option J :=
  match lookup name data with
  | some (.ok (.ok j)) => if j.isNull then none else some j
  | _ => none

end SV.Spec.C10
