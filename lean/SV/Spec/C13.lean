/-
  Specification side of C13's worker clause, written from the property statement: "the number of workers affects
  speed, not what is tested".  For the state shared by the workers this means: what a worker obtains from the shared
  schema object is what it would obtain if it were alone.
-/
import SV.Model.C13Shared

namespace SV.Spec.C13
open SV.Model.C13

/-- a worker that asked for the lazily built cell and used it found the complete object -/
def CellSafe (c : LCfg) (s : LState) : Prop := ∀ w n, s.pc w = .done n → n = c.parts

/-- what every read of the trace returns if each thread has a stack of its own (the single-worker view) -/
def privObs (pv : Tid → List Scope) : List SEv → List (Tid × List Scope)
  | [] => []
  | (t, a) :: rest =>
    match (stackStep (pv t) a).2 with
    | some o => (t, o) :: privObs (upd pv t (stackStep (pv t) a).1) rest
    | none => privObs (upd pv t (stackStep (pv t) a).1) rest

/-- the reads of a trace, paired with their position (for reporting the first read that sees a foreign scope) -/
def foreignReads (base : List Scope) (tr : List SEv) : List Nat :=
  let sh := sharedObs base tr
  let pr := privObs (fun _ => base) tr
  (List.range sh.length).filter fun i => sh[i]? != pr[i]?

/-- executable judge of a cell trace: `gets` are (thread, object, digest seen), `finals` the digest of every object when
    all threads are done; returns the positions of the reads that saw an incomplete object -/
def incompleteGets (gets : List (Tid × Nat × Nat)) (finals : List (Nat × Nat)) : List Nat :=
  (List.range gets.length).filter fun i =>
    match gets[i]? with
    | some (_, o, seen) => (finals.lookup o) != some seen
    | none => false

end SV.Spec.C13
