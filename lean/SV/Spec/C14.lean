/-
  Specification for C14 (parameter overrides), written from the property statement:
  "parameter overrides (--set-*) … are present, with the user's value winning over any generated value of the same
   name, on every request sent for an operation they apply to, in every phase".
  An override entry applies to an operation iff the operation declares a parameter of that name in that location.
-/
import SV.Model.C14

namespace SV.Spec.C14
open SV.Model.C14

/-- the value of the last binding of `k` in an update list -/
def lastIn (k : Key) : Dict → Option String
  | [] => none
  | kv :: rest => match lastIn k rest with
    | some v => some v
    | none => if k == kv.1 then some kv.2 else none

/-- the same for a CaseInsensitiveDict update -/
def lastInCI (k : Key) : Dict → Option String
  | [] => none
  | kv :: rest => match lastInCI k rest with
    | some v => some v
    | none => if lower k == lower kv.1 then some kv.2 else none

/-- a CaseInsensitiveDict as a list of pairs: no two keys equal up to case -/
def CIUnique (d : Dict) : Prop := d.Pairwise fun a b => lower a.1 ≠ lower b.1

/-- the configured entry `n = v` of location `l` applies to `op` -/
def Applies (o : Overrides) (op : Op) (l : Loc) (n : Key) (v : String) : Prop :=
  (l, n) ∈ op.params ∧ dlookup n (o l) = some v

instance (o : Overrides) (op : Op) (l : Loc) (n : Key) (v : String) : Decidable (Applies o op l n v) := by
  unfold Applies; exact inferInstance

/-- what the transport reads from a case container: the exact key for query / cookies / path parameters; for headers
    the case-insensitive view `CaseInsensitiveDict(case.headers)[k]` (first step of `prepare_headers`) -/
def wireLookup (l : Loc) (k : Key) (c : Dict) : Option String :=
  match l with
  | .headers => lookupCI k (updateCI [] c)
  | _ => dlookup k c

def wireLookupO (l : Loc) (k : Key) (c : Option Dict) : Option String :=
  match c with
  | none => none
  | some d => wireLookup l k d

/-- the user's header configuration is consistent for `n`: every applicable `--set-header` entry whose name equals `n`
    up to case carries the same value (header names are case-insensitive on the wire) -/
def HeaderConsistent (o : Overrides) (op : Op) (n : Key) (v : String) : Prop :=
  ∀ n' v', Applies o op .headers n' v' → lower n' = lower n → v' = v

/-- a memo table (`Resolver.memo key`) is sound for the operations `S` iff its key determines the applicable entries -/
def KeySound {K : Type} (o : Overrides) (S : Op → Prop) (key : Op → K) : Prop :=
  ∀ op op', S op → S op' → key op = key op' → forOperation o op = forOperation o op'

/-- all configured entries that apply to `op` -/
def expected (o : Overrides) (op : Op) : List (Loc × Key × String) :=
  Loc.all.flatMap fun l => (o l).filterMap fun kv =>
    if op.params.contains (l, kv.1) && (dlookup kv.1 (o l) == some kv.2) then some (l, kv.1, kv.2) else none

/-- configured entries whose name `op` does not declare in that location -/
def foreign (o : Overrides) (op : Op) : List (Loc × Key × String) :=
  Loc.all.flatMap fun l => (o l).filterMap fun kv =>
    if op.params.contains (l, kv.1) then none else some (l, kv.1, kv.2)

inductive Verdict where
  | missing (l : Loc) (n : Key) (want : String) (got : Option String)
  | invented (l : Loc) (n : Key) (v : String)
  deriving DecidableEq, Repr

/-- Judge one request (its four containers `req`) sent for `op` under the configuration `o`; `base` is what the
    request carried before the configuration was applied (generated / link-derived data; `none` where unknown).
    `missing`: an applicable entry is absent or has another value.  `invented`: an entry that does not apply to this
    operation was nevertheless written (the user's value is there although the data before did not have it). -/
def judge (o : Overrides) (op : Op) (req base : Containers) : List Verdict :=
  ((expected o op).filterMap fun (l, n, v) =>
      if wireLookupO l n (req l) == some v then none else some (.missing l n v (wireLookupO l n (req l)))) ++
  ((foreign o op).filterMap fun (l, n, v) =>
      if wireLookupO l n (req l) == some v && !(wireLookupO l n (base l) == some v) then some (.invented l n v) else none)

end SV.Spec.C14
