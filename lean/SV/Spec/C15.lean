/-
  Reference predicates for C15, written from the property statement (not from the code):
  * a name is *sensitive* under a configuration iff its lower-cased spelling is one of the configured keys or
    contains one of the configured markers;
  * an output is a *correct redaction* of an input iff it has the same shape and names, carries the replacement
    (and nothing else) at every sensitive position and the input's own value everywhere else;
  * two inputs are *low-equivalent* iff they differ at sensitive positions only (the list-ness of a secret is public).
  Non-interference = low-equivalent inputs are rendered identically.
-/
import SV.Model.C15

namespace SV.Spec.C15
open SV.Model.C15

/-- the reference key predicate -/
def Sensitive (cfg : Config) (name : Str) : Prop :=
  lower name ∈ cfg.keys ∨ ∃ m ∈ cfg.markers, m <:+: lower name

/-- executable form of `Sensitive`, written independently of the model's `isSensitive`:
    `m` occurs in `s` iff it is a prefix of `s` with some number of leading characters dropped -/
def occursIn (m s : Str) : Bool := (List.range (s.length + 1)).any fun i => m.isPrefixOf (s.drop i)

def sensitiveB (cfg : Config) (name : Str) : Bool :=
  let l := name.map Char.toLower
  cfg.keys.any (· == l) || cfg.markers.any (occursIn · l)

/-! ### correct redaction -/

def okSecret (cfg : Config) (inp out : Val) : Bool :=
  match inp, out with
  | .list _, .list [.leaf r] => r == cfg.replacement
  | .list _, _ => false
  | _, .leaf r => r == cfg.replacement
  | _, _ => false

mutual
  def okV (cfg : Config) : Val → Val → Bool
    | .leaf a, .leaf b => a == b
    | .list xs, .list ys => okList cfg xs ys
    | .dict xs, .dict ys => okKvs cfg xs ys
    | _, _ => false
  def okList (cfg : Config) : List Val → List Val → Bool
    | [], [] => true
    | x :: xs, y :: ys => okV cfg x y && okList cfg xs ys
    | _, _ => false
  def okKvs (cfg : Config) : List (Str × Val) → List (Str × Val) → Bool
    | [], [] => true
    | (k, x) :: xs, (k', y) :: ys =>
      k == k' && (if sensitiveB cfg k then okSecret cfg x y else okV cfg x y) && okKvs cfg xs ys
    | _, _ => false
end

/-- `dict[str, list[str]]` (recorded headers, parsed query) -/
def okMulti (cfg : Config) : List (Str × List Str) → List (Str × List Str) → Bool
  | [], [] => true
  | (k, vs) :: xs, (k', ws) :: ys =>
    k == k' && (if sensitiveB cfg k then ws == [cfg.replacement] else ws == vs) && okMulti cfg xs ys
  | _, _ => false

/-- the host part of an authority: everything after the last `@` (the whole authority when there is none) -/
def hostOf : Str → Str
  | [] => []
  | c :: cs => if cs.contains '@' then hostOf cs else if c == '@' then cs else c :: cs

def hasUserinfo (netloc : Str) : Bool := netloc.contains '@'

/-- a correctly redacted authority: no userinfo in, nothing changes; userinfo in, it is replaced wholesale -/
def okNetloc (cfg : Config) (inp out : Str) : Bool :=
  if hasUserinfo inp then out == cfg.replacement ++ '@' :: hostOf inp else out == inp

/-- a correctly redacted query: as a multi-map, the output is the redaction of the input -/
def okUrl (cfg : Config) (inp out : Url) : Bool :=
  out.scheme == inp.scheme && out.path == inp.path && out.fragment == inp.fragment &&
  okNetloc cfg inp.netloc out.netloc && okMulti cfg (parseQs inp.query) (parseQs out.query)

def okOptMulti (cfg : Config) : Option (List (Str × List Str)) → Option (List (Str × List Str)) → Bool
  | none, none => true
  | some a, some b => okMulti cfg a b
  | _, _ => false

/-- one cassette / HAR entry produced with sanitization on -/
def okEntry (cfg : Config) (i : Interaction) (e : Entry) : Bool :=
  okUrl cfg i.uri e.uri && okMulti cfg i.reqHeaders e.reqHeaders && okOptMulti cfg i.respHeaders e.respHeaders

/-- prepared request headers of the reproduction command: every sensitive name carries the replacement -/
def okPreparedHeaders (cfg : Config) (hs : List (Str × HVal)) : Bool :=
  hs.all fun (k, v) => !sensitiveB cfg k || (match v with | .text s => s == cfg.replacement | _ => false)

/-! ### low-equivalence (the public part of an input) -/

mutual
  def lowEq (cfg : Config) : Val → Val → Bool
    | .leaf a, .leaf b => a == b
    | .list xs, .list ys => lowEqList cfg xs ys
    | .dict xs, .dict ys => lowEqKvs cfg xs ys
    | _, _ => false
  def lowEqList (cfg : Config) : List Val → List Val → Bool
    | [], [] => true
    | x :: xs, y :: ys => lowEq cfg x y && lowEqList cfg xs ys
    | _, _ => false
  def lowEqKvs (cfg : Config) : List (Str × Val) → List (Str × Val) → Bool
    | [], [] => true
    | (k, x) :: xs, (k', y) :: ys =>
      k == k' && (if isSensitive cfg k then x.isList == y.isList else lowEq cfg x y) && lowEqKvs cfg xs ys
    | _, _ => false
end

/-- multi-maps: same names in the same order; values may differ under sensitive names only -/
def lowEqMulti (cfg : Config) : List (Str × List Str) → List (Str × List Str) → Bool
  | [], [] => true
  | (k, vs) :: xs, (k', ws) :: ys => k == k' && (isSensitive cfg k || vs == ws) && lowEqMulti cfg xs ys
  | _, _ => false

/-- single-valued headers / decoded query pairs -/
def lowEqPairs (cfg : Config) : List (Str × Str) → List (Str × Str) → Bool
  | [], [] => true
  | (k, v) :: xs, (k', w) :: ys => k == k' && (isSensitive cfg k || v == w) && lowEqPairs cfg xs ys
  | _, _ => false

/-- URLs: same scheme, host, path, fragment; both with or both without userinfo; queries low-equivalent as multi-maps -/
def lowEqUrl (cfg : Config) (a b : Url) : Bool :=
  a.scheme == b.scheme && a.path == b.path && a.fragment == b.fragment &&
  hasUserinfo a.netloc == hasUserinfo b.netloc && hostOf a.netloc == hostOf b.netloc &&
  lowEqMulti cfg (parseQs a.query) (parseQs b.query)

def lowEqOptMulti (cfg : Config) : Option (List (Str × List Str)) → Option (List (Str × List Str)) → Bool
  | none, none => true
  | some a, some b => lowEqMulti cfg a b
  | _, _ => false

/-- recorded interactions that differ in secrets only -/
def lowEqInteraction (cfg : Config) (a b : Interaction) : Bool :=
  lowEqUrl cfg a.uri b.uri && lowEqMulti cfg a.reqHeaders b.reqHeaders && lowEqOptMulti cfg a.respHeaders b.respHeaders

def lowEqOptDict (cfg : Config) : Option (List (Str × Val)) → Option (List (Str × Val)) → Bool
  | none, none => true
  | some a, some b => lowEqKvs cfg a b
  | _, _ => false

/-- request kwargs that differ in secrets *held under sensitive names* only (what the code as found protects) -/
def lowEqKwargsNamed (cfg : Config) (a b : Kwargs) : Bool :=
  lowEqUrl cfg a.url b.url && lowEqPairs cfg a.headers b.headers && lowEqOptDict cfg a.cookies b.cookies &&
  lowEqOptDict cfg a.params b.params && a.auth == b.auth

/-- request kwargs that differ in secrets only, where the whole cookie jar (it becomes the `Cookie` header) and the
    basic-auth credentials (they become the `Authorization` header) are secrets; their presence is public -/
def lowEqKwargs (cfg : Config) (a b : Kwargs) : Bool :=
  lowEqUrl cfg a.url b.url && lowEqPairs cfg a.headers b.headers && truthy a.cookies == truthy b.cookies &&
  lowEqOptDict cfg a.params b.params && a.auth.isSome == b.auth.isSome

/-! ### "the secret is visible in the output" (used by the witnesses) -/

mutual
  def mentionsV (secret : Str) : Val → Bool
    | .leaf s => isInfix secret s
    | .list xs => mentionsList secret xs
    | .dict kvs => mentionsKvs secret kvs
  def mentionsList (secret : Str) : List Val → Bool
    | [] => false
    | x :: xs => mentionsV secret x || mentionsList secret xs
  def mentionsKvs (secret : Str) : List (Str × Val) → Bool
    | [] => false
    | (_, v) :: rest => mentionsV secret v || mentionsKvs secret rest
end

def mentionsH (secret : Str) : HVal → Bool
  | .text s => isInfix secret s
  | .cookies kvs => mentionsKvs secret kvs
  | .basic u p => isInfix secret u || isInfix secret p

def mentionsUrl (secret : Str) (u : Url) : Bool :=
  isInfix secret u.netloc || u.query.any fun (_, v) => isInfix secret v

def mentionsPrepared (secret : Str) (p : Prepared) : Bool :=
  mentionsUrl secret p.url || mentionsKvs secret p.params || p.headers.any fun (_, v) => mentionsH secret v

def mentionsArg (secret : Str) : ArgOut → Bool
  | .word s => isInfix secret s
  | .url u => mentionsUrl secret u

def mentionsCommand (secret : Str) : Command → Bool
  | .unknown => false
  | .st args => args.any (mentionsArg secret)

/-! ### command line -/

/-- the word list ends inside an option that still expects its value -/
def dangling : List Arg → Bool
  | [] => false
  | [a] => a.isOpt authOpts || a.isOpt headerOpts
  | a :: b :: rest => if a.isOpt authOpts || a.isOpt headerOpts then dangling rest else dangling (b :: rest)

end SV.Spec.C15
