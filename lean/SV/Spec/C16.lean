/-
  Specification side of C16: reference decoders written from the YAML 1.1 grammar of flow scalars (as implemented by
  PyYAML's reader + scanner, against which they are differentially validated on every run), not from the writer.
  Core Lean only.
-/
import SV.Model.C16

namespace SV.Spec.C16
open SV.Model.C16

/-! ## characters -/

/-- YAML 1.1 `c-printable` as enforced by PyYAML's `Reader.NON_PRINTABLE` on the whole stream -/
def printable (c : Nat) : Bool :=
  c == 9 || c == 10 || c == 13 || (0x20 ≤ c && c ≤ 0x7E) || c == 0x85 || (0xA0 ≤ c && c ≤ 0xD7FF) ||
  (0xE000 ≤ c && c ≤ 0xFFFD) || (0x10000 ≤ c && c ≤ 0x10FFFF)

/-- YAML 1.1 `b-char` -/
def isBreak (c : Nat) : Bool := c == 10 || c == 13 || c == 0x85 || c == 0x2028 || c == 0x2029

/-- a character that stands for itself on one line -/
def inlineCh (c : Nat) : Bool := printable c && !isBreak c

/-! ## double-quoted flow scalar (single line) -/

def hexVal (c : Nat) : Option Nat :=
  if 48 ≤ c ∧ c ≤ 57 then some (c - 48)
  else if 65 ≤ c ∧ c ≤ 70 then some (c - 55)
  else if 97 ≤ c ∧ c ≤ 102 then some (c - 87)
  else none

/-- read exactly `w` hex digits -/
def readHex : Nat → Str → Nat → Option (Nat × Str)
  | 0, s, acc => some (acc, s)
  | _ + 1, [], _ => none
  | w + 1, c :: s, acc =>
    match hexVal c with
    | some d => readHex w s (acc * 16 + d)
    | none => none

/-- YAML 1.1 single-character escapes (`ns-esc-*`), i.e. PyYAML's `Scanner.ESCAPE_REPLACEMENTS` -/
def unescape1 (e : Nat) : Option Nat :=
  if e = 48 then some 0 else if e = 97 then some 7 else if e = 98 then some 8 else if e = 116 then some 9
  else if e = 9 then some 9 else if e = 110 then some 10 else if e = 118 then some 11 else if e = 102 then some 12
  else if e = 114 then some 13 else if e = 101 then some 27 else if e = 32 then some 32 else if e = 34 then some 34
  else if e = 47 then some 47 else if e = 92 then some 92 else if e = 78 then some 0x85 else if e = 95 then some 0xA0
  else if e = 76 then some 0x2028 else if e = 80 then some 0x2029 else none

/-- continue after a `\x`/`\u`/`\U` escape: the value must be a code point -/
def afterHex (k : Str → Str → Option (Str × Str)) (acc : Str) : Option (Nat × Str) → Option (Str × Str)
  | some (v, r) => if v < 0x110000 then k r (v :: acc) else none
  | none => none

/-- `decodeF fuel input acc`: the text after the opening quote up to the closing one.
    Returns the decoded content and what follows the closing quote.  One unit of fuel per decoded character. -/
def decodeF : Nat → Str → Str → Option (Str × Str)
  | 0, _, _ => none
  | _ + 1, [], _ => none
  | f + 1, c :: t, acc =>
    if c = 34 then some (acc.reverse, t)
    else if c = 92 then
      match t with
      | [] => none
      | e :: t' =>
        if e = 120 then afterHex (decodeF f) acc (readHex 2 t' 0)
        else if e = 117 then afterHex (decodeF f) acc (readHex 4 t' 0)
        else if e = 85 then afterHex (decodeF f) acc (readHex 8 t' 0)
        else match unescape1 e with
          | some v => decodeF f t' (v :: acc)
          | none => none
    else if inlineCh c then decodeF f t (c :: acc)
    else none

/-- a double-quoted scalar at the head of `inp`: (content, rest) -/
def decodeDQ (inp : Str) : Option (Str × Str) :=
  match inp with
  | 34 :: t => decodeF (t.length + 1) t []
  | _ => none

/-! ## single-quoted flow scalar (single line) -/

/-- the text after the opening `'`: `''` stands for a quote, a lone `'` ends the scalar.
    The flag says that the previous character was a `'` not yet interpreted. -/
def sqF : Bool → Str → Str → Option (Str × Str)
  | false, [], _ => none
  | true, [], acc => some (acc.reverse, [])
  | false, c :: t, acc => if c = 39 then sqF true t acc else if inlineCh c then sqF false t (c :: acc) else none
  | true, c :: t, acc => if c = 39 then sqF false t (39 :: acc) else some (acc.reverse, c :: t)

def decodeSQBody (t acc : Str) : Option (Str × Str) := sqF false t acc

def decodeSQ (inp : Str) : Option (Str × Str) :=
  match inp with
  | [] => none
  | c :: t => if c = 39 then decodeSQBody t [] else none

/-! ## the block-structure subset the cassette uses, one line at a time

A line is `indent ["- "] key ":" [" " value]`, `indent "- " value` (sequence item) or blank; keys are plain
identifiers or double-quoted scalars; values are single- or double-quoted scalars, the empty flow collections or a plain
scalar.  Nesting is carried by `indent`/`dash`. -/

inductive Val where
  | str (s : Str)          -- quoted scalar: always a string
  | plain (s : Str)        -- plain scalar (resolved by the reader: null, ~, numbers, words)
  | emptyMap | emptySeq    -- `{}` / `[]`
  deriving Repr, DecidableEq, Inhabited

structure Tok where
  indent : Nat
  dash : Bool
  key : Option Str
  val : Option Val
  deriving Repr, DecidableEq, Inhabited

def takeSpaces : Str → Nat → Nat × Str
  | [], n => (n, [])
  | c :: t, n => if c = 32 then takeSpaces t (n + 1) else (n, c :: t)

def keyChar (c : Nat) : Bool := (97 ≤ c && c ≤ 122) || (48 ≤ c && c ≤ 57) || c == 95

def takeKey : Str → Str → Str × Str
  | [], acc => (acc.reverse, [])
  | c :: t, acc => if keyChar c then takeKey t (c :: acc) else (acc.reverse, c :: t)

/-- characters that cannot start a plain scalar (`c-indicator`), plus space -/
def indicator (c : Nat) : Bool :=
  c == 45 || c == 63 || c == 58 || c == 44 || c == 91 || c == 93 || c == 123 || c == 125 || c == 35 || c == 38 ||
  c == 42 || c == 33 || c == 124 || c == 62 || c == 39 || c == 34 || c == 37 || c == 64 || c == 96 || c == 32

/-- no `: ` and no ` #` inside, does not end with `:` or a space -/
def plainTail : Str → Bool
  | [] => true
  | [c] => inlineCh c && c != 58 && c != 32 && c != 9
  | c :: d :: t => inlineCh c && c != 9 && !(c == 58 && d == 32) && !(c == 32 && d == 35) && plainTail (d :: t)

def plainOK (t : Str) : Bool :=
  match t with
  | [] => false
  | c :: _ => !indicator c && plainTail t

def parseValue (rest : Str) : Option (Option Val) :=
  match rest with
  | [] => some none
  | c :: t =>
    if c ≠ 32 then none
    else match t with
      | [] => some none
      | q :: t' =>
        if q = 39 then
          match decodeSQBody t' [] with
          | some (s, []) => some (some (.str s))
          | _ => none
        else if q = 34 then
          match decodeDQ t with
          | some (s, []) => some (some (.str s))
          | _ => none
        else if t = [123, 125] then some (some .emptyMap)
        else if t = [91, 93] then some (some .emptySeq)
        else if plainOK t then some (some (.plain t))
        else none

def parseAfterDash (n : Nat) (dash : Bool) (r : Str) : Option Tok :=
  match r with
  | [] => if dash then none else some ⟨n, false, none, none⟩
  | c :: _ =>
    if c = 34 then
      match decodeDQ r with
      | some (s, []) => if dash then some ⟨n, true, none, some (.str s)⟩ else none
      | some (s, d :: rest) => if d = 58 then (parseValue rest).map fun v => ⟨n, dash, some s, v⟩ else none
      | none => none
    else
      match takeKey r [] with
      | ([], _) => none
      | (_ :: _, []) => none
      | (k, d :: rest) => if d = 58 then (parseValue rest).map fun v => ⟨n, dash, some k, v⟩ else none

def isDash : Str → Bool
  | c :: d :: _ => c == 45 && d == 32
  | _ => false

def parseLine (l : Str) : Option Tok :=
  let p := takeSpaces l 0
  if isDash p.2 then parseAfterDash p.1 true (p.2.drop 2) else parseAfterDash p.1 false p.2

def splitLines : Str → Str → List Str
  | [], cur => [cur.reverse]
  | c :: t, cur => if c = 10 then cur.reverse :: splitLines t [] else splitLines t (c :: cur)

/-- the whole document as a token stream; `none` if some line is outside the subset -/
def decodeDoc (text : Str) : Option (List Tok) := (splitLines text []).mapM parseLine

/-! ## base64 -/

def b64Val (c : Nat) : Option Nat :=
  if 65 ≤ c ∧ c ≤ 90 then some (c - 65) else if 97 ≤ c ∧ c ≤ 122 then some (c - 71)
  else if 48 ≤ c ∧ c ≤ 57 then some (c + 4) else if c = 43 then some 62 else if c = 47 then some 63 else none

def b64Quad (s0 s1 s2 s3 : Option Nat) (tail : Option (List Nat)) : Option (List Nat) :=
  match s0, s1, s2, s3, tail with
  | some s0, some s1, some s2, some s3, some bs =>
    some ((s0 * 4 + s1 / 16) :: (s1 % 16 * 16 + s2 / 4) :: (s2 % 4 * 64 + s3) :: bs)
  | _, _, _, _, _ => none

/-- RFC 4648 decoding of padded base64 text (`=` only in the last group) -/
def b64decode : Str → Option (List Nat)
  | [] => some []
  | c0 :: c1 :: c2 :: c3 :: rest =>
    if c3 = 61 then
      if rest ≠ [] then none
      else if c2 = 61 then
        match b64Val c0, b64Val c1 with
        | some s0, some s1 => some [s0 * 4 + s1 / 16]
        | _, _ => none
      else
        match b64Val c0, b64Val c1, b64Val c2 with
        | some s0, some s1, some s2 => some [s0 * 4 + s1 / 16, s1 % 16 * 16 + s2 / 4]
        | _, _, _ => none
    else b64Quad (b64Val c0) (b64Val c1) (b64Val c2) (b64Val c3) (b64decode rest)
  | _ => none

/-! ## what a reader must get from each line of the cassette, and the side conditions on interpolated text -/

def plainVal (s : Str) : Val :=
  if s = [123, 125] then .emptyMap else if s = [91, 93] then .emptySeq else .plain s

/-- the value a reader gets; `none`: the writer put text after the scalar that belongs to no value -/
def vtextTok : VText → Option (Option Val)
  | .none => some none
  | .trailing => some none
  | .plain s => some (some (plainVal s))
  | .sq s => some (some (.str s))
  | .sqJunk _ _ => none
  | .dq (some s) => some (some (.str s))
  | .dq none => some (some (.plain (lit "null")))
  | .json s => some (some (.str s))
  | .msg none => some (some (.plain [126]))
  | .msg (some t) => some (some (.str t))

def lineTok : Line → Option Tok
  | .kv n d k v => (vtextTok v).map fun val => ⟨n, d, some k, val⟩
  | .qkey n name => some ⟨n, false, some name, none⟩
  | .item n x => some ⟨n, true, none, some (.str x)⟩
  | .blank => some ⟨0, false, none, none⟩

/-- every element is a code point -/
def cpOK (s : Str) : Bool := s.all (· < 0x110000)
/-- text of the Basic Multilingual Plane (HTTP header values and reason phrases are latin-1) -/
def bmp (s : Str) : Bool := s.all (· < 0x10000)
def keyOK (k : Str) : Bool := !k.isEmpty && k.all keyChar
def optOK : Option Str → Bool
  | none => true
  | some s => cpOK s

def vtextOK : VText → Bool
  | .none => true
  | .trailing => true
  | .plain s => plainOK s || s == [123, 125] || s == [91, 93]
  | .sq s => cpOK s
  | .sqJunk _ _ => false
  | .dq o => optOK o
  | .json s => bmp s
  | .msg t => optOK t

def lineOK : Line → Bool
  | .kv _ _ k v => keyOK k && vtextOK v
  | .qkey _ name => cpOK name
  | .item _ x => bmp x
  | .blank => true

def headersOK (hs : List (Str × List Str)) : Bool := hs.all fun p => cpOK p.1 && p.2.all bmp

def metaOK (m : Meta) : Bool :=
  plainOK m.time && plainOK m.mode && m.components.all (fun p => keyOK p.1 && cpOK p.2) && cpOK m.phaseName &&
  (match m.data with
   | .other => true
   | .coverage d l p pl => cpOK d && optOK l && optOK p && optOK pl)

def respOK (r : Resp) : Bool :=
  cpOK r.code && bmp r.message && cpOK r.elapsed && headersOK r.headers && cpOK r.decoded && optOK r.encoding &&
  cpOK r.httpVersion

def checksOK (cs : List CheckRec) : Bool := cs.all fun c => cpOK c.name && optOK c.title

/-- The only conditions on the content of an interaction: strings are Python strings, header values / reason phrase
    are BMP text, the bare-interpolated numbers and enum values are plain scalars. -/
def entryOK (e : Entry) : Bool :=
  cpOK e.id && (match e.cmeta with | none => true | some m => metaOK m) && cpOK e.recordedAt &&
  (match e.checks with | none => true | some cs => checksOK cs) && cpOK e.uri && cpOK e.method && headersOK e.headers &&
  cpOK e.bodyDecoded && (match e.response with | none => true | some r => respOK r)

/-! ## event histories the engine can emit (hypothesis of the partial JUnit theorem) -/

/-- the recorder holds a failing check whose failure was not seen before -/
def freshIn (u : List (Nat × Nat)) (r : Recorder) : Prop :=
  ∃ c ∈ r.cases, ∃ f, some f ∈ c.checks ∧ ndGet f u = none

/-- a scenario that finishes with FAILURE either brings a failure never seen before or has a label that already owns
    recorded failures -/
def Covered (st : Stat) : Event → Prop
  | .scenarioFinished .failure _ r => (ndGet r.label st.failures).isSome ∨ freshIn st.unique r
  | _ => True

def AllCovered : Stat → List Event → Prop
  | _, [] => True
  | st, ev :: rest => Covered st ev ∧ AllCovered (ctxStep st ev) rest

/-- `GET /a` fails in a unit phase; the same failure is found again by the stateful phase (`Stateful tests`) -/
def witnessHistory : List Event :=
  [.scenarioFinished .failure false ⟨1, [⟨10, [some 7]⟩]⟩, .scenarioFinished .failure false ⟨2, [⟨11, [some 7, none]⟩]⟩,
   .engineFinished]

def noUpper (s : Str) : Prop := ∀ c ∈ s, ¬ (65 ≤ c ∧ c ≤ 90)

/-- a top-level sequence item: the start of one interaction -/
def topItem : Line → Bool
  | .kv 0 true _ _ => true
  | _ => false

/-- a concrete interaction (coverage metadata, a failed check, bodies, headers) meeting `entryOK` -/
def sampleEntry : Entry :=
  { id := lit "AbC123", cmeta := some ⟨lit "0.001", lit "negative", [(lit "query", lit "negative")], lit "coverage",
      .coverage (lit "it's \"x\"\n") none (some (lit "q")) (some (lit "query"))⟩,
    recordedAt := lit "2026-09-29T14:25:19+00:00",
    checks := some [⟨lit "not_a_server_error", true, some (lit "a'b\"c")⟩],
    uri := lit "http://127.0.0.1/it's", method := lit "GET", headers := [(lit "X-\"q", [lit "v\x7f"])],
    body := some [255, 0], bodyDecoded := [0xFFFD, 0],
    response := some ⟨lit "500", lit "O\"K", lit "0.1", [(lit "content-type", [lit "a", lit "b"])], [104, 105], lit "hi",
      some (lit "a'b"), false, lit "1.1"⟩ }

/-! ## several report handlers in one run: what each report must contain

Written from the property statement: "each exchange that was delivered to the reporters appears exactly once" — in
every report that was asked for, whatever else is being written at the same time. -/

/-- the events the `i`-th cassette writer was handed by the event loop: all of them, or — when a handler placed after
    the first `p` writers raised at event `k` — those up to `k` (inclusive for writers placed before it) -/
def deliveredTo (i : Nat) (evs : List Ev) : Option (Nat × Nat) → List Ev
  | none => evs
  | some (k, p) => evs.take (if i < p then k + 1 else k)

/-- the exchanges in delivery order -/
def exchanges (delivered : List Ev) : List Nat := delivered.flatMap fun e => e.getD []

/-- the content of a finished report: (for a VCR cassette, the preamble once, first) then every delivered exchange
    exactly once, in order -/
def expectedFile (f : Fmt) (seed : Option Nat) (delivered : List Ev) : List Chunk :=
  (match f with
   | .vcr => [Chunk.preamble seed]
   | .har => []) ++ (exchanges delivered).map .entry

/-- judge a report read back from disk -/
def reportOK (f : Fmt) (seed : Option Nat) (delivered : List Ev) (observed : List Chunk) : Bool :=
  observed == expectedFile f seed delivered

/-- two writers made to share one queue object (the negative witness of `shared_queue_full_false`) -/
def sharedCfg : Nat → HCfg := fun i => ⟨if i = 0 then .vcr else .har, 0⟩

end SV.Spec.C16
