/-
  C16, the end of the run: the judgement on a report file as it lies on disk when the process is over.
-/
import SV.Spec.C16
import SV.Model.C16Exit

namespace SV.Spec.C16
open SV.Model.C16

/-- a report file on disk is what the property asks for: no dangling fragment, the document closed (HAR), and the
    complete chunks are exactly the report `reportOK` accepts ((VCR) the preamble once, then every delivered exchange
    exactly once, in delivery order) -/
def finalReportOK (f : Fmt) (seed : Option Nat) (delivered : List Ev) (d : Disk) : Bool :=
  !d.torn && d.closedDoc && reportOK f seed delivered d.chunks

end SV.Spec.C16
