/-
  Reference predicates for C17, written from the property statement (not from the code).
-/
import SV.Model.C17

namespace SV.Spec.C17
open SV SV.Model.C17

/-- the keyword arguments of one examples-phase case carry the example unchanged at its own place -/
def Carries (ps : Containers) (b : Option (String × Json)) : Example → Prop
  | .param c n v => ∃ cont, lookupC c ps = some cont ∧ lookupC n cont = some v
  | .body v mt => b = some (mt, v)

/-- executable form of `Carries` (structural `Json.beq`), used by the replay on what the real code produced -/
def carriesB (ps : Containers) (b : Option (String × Json)) : Example → Bool
  | .param c n v =>
    match lookupC c ps with
    | some cont => (match lookupC n cont with | some x => x == v | none => false)
    | none => false
  | .body v mt =>
    match b with
    | some (mt', x) => mt' == mt && x == v
    | none => false

/-! ### examples declared on (nested) properties of a schema -/

inductive Seg where
  | prop (name : String)
  | item
  deriving Repr, DecidableEq

/-- `Declared ef esf schema path v`: the document declares `v` as an example (field `ef`, or an item of the list
    field `esf`) of the sub-schema found at property path `path`; every property step may pass through the one
    level of anyOf / oneOf / allOf the code expands (`branch ∈ expandSubschemas sub`). -/
inductive Declared (ef esf : String) : Json → List Seg → Json → Prop
  | example (schema props : Json) (name : String) (sub branch v : Json) :
      schema.get? "properties" = some props → (name, sub) ∈ objItems props → branch ∈ expandSubschemas sub →
      branch.get? ef = some v → Declared ef esf schema [.prop name] v
  | examples (schema props : Json) (name : String) (sub branch : Json) (vs : List Json) (v : Json) :
      schema.get? "properties" = some props → (name, sub) ∈ objItems props → branch ∈ expandSubschemas sub →
      branch.get? esf = some (.arr vs) → v ∈ vs → Declared ef esf schema [.prop name] v
  | nested (schema props : Json) (name : String) (sub branch : Json) (path : List Seg) (v : Json) :
      schema.get? "properties" = some props → (name, sub) ∈ objItems props → branch ∈ expandSubschemas sub →
      Declared ef esf branch path v → Declared ef esf schema (.prop name :: path) v
  | items (schema : Json) (its : List (String × Json)) (path : List Seg) (v : Json) :
      schema.get? "properties" = none → schema.get? "items" = some (.obj its) →
      Declared ef esf (.obj its) path v → Declared ef esf schema (.item :: path) v

/-- the value found at `path` inside a body / parameter value -/
inductive At : Json → List Seg → Json → Prop
  | here (v : Json) : At v [] v
  | prop (kvs : List (String × Json)) (name : String) (x : Json) (path : List Seg) (v : Json) :
      (name, x) ∈ kvs → At x path v → At (.obj kvs) (.prop name :: path) v
  | item (x : Json) (path : List Seg) (v : Json) : At x path v → At (.arr [x]) (.item :: path) v

/-- a sub-schema reachable through any nesting of anyOf / oneOf branches -/
inductive Branch : Json → Json → Prop
  | self (s : Json) : Branch s s
  | anyOf (kvs : List (String × Json)) (subs : List Json) (sub b : Json) :
      Json.lookup "anyOf" kvs = some (.arr subs) → sub ∈ subs → Branch sub b → Branch (.obj kvs) b
  | oneOf (kvs : List (String × Json)) (subs : List Json) (sub b : Json) :
      Json.lookup "oneOf" kvs = some (.arr subs) → sub ∈ subs → Branch sub b → Branch (.obj kvs) b

def valueOf : Example → Json
  | .param _ _ v => v
  | .body v _ => v

/-- executable `At` -/
def atB : List Seg → Json → Json → Bool
  | [], x, v => x == v
  | .prop n :: p, .obj kvs, v => kvs.any fun kv => kv.1 == n && atB p kv.2 v
  | .item :: p, .arr [x], v => atB p x v
  | _, _, _ => false

/-- what the document makes us expect: value `value` at `path` inside parameter `name` of `container`
    (or inside the body sent with media type `name`) -/
structure Expect where
  isBody : Bool
  container : String
  name : String
  path : List Seg
  value : Json

/-- one case (keyword arguments of the request) meets the expectation -/
def meetsB (ps : Containers) (b : Option (String × Json)) (e : Expect) : Bool :=
  if e.isBody then
    match b with
    | some (mt, x) => mt == e.name && atB e.path x e.value
    | none => false
  else
    match lookupC e.container ps with
    | some cont => (match lookupC e.name cont with | some x => atB e.path x e.value | none => false)
    | none => false

end SV.Spec.C17
