/-
  Reference predicates for C17, written from the property statement (not from the code).
-/
import SV.Model.C17

namespace SV.Spec.C17
open SV SV.Model.C17

/-- the keyword arguments of one examples-phase case carry the example unchanged at its own place -/
def Carries (ps : Containers) (b : Option (String × Json)) : Example → Prop
  | .param c n v => ∃ cont, lookupC c ps = some cont ∧ lookupC n cont = some v
  | .body v mt => b = some (mt, v)

/-- executable form of `Carries` (structural `Json.beq`), used by the replay on what the real code produced -/
def carriesB (ps : Containers) (b : Option (String × Json)) : Example → Bool
  | .param c n v =>
    match lookupC c ps with
    | some cont => (match lookupC n cont with | some x => x == v | none => false)
    | none => false
  | .body v mt =>
    match b with
    | some (mt', x) => mt' == mt && x == v
    | none => false

/-! ### examples declared on (nested) properties of a schema -/

inductive Seg where
  | prop (name : String)
  | item
  deriving Repr, DecidableEq

/-- `Declared ef esf schema path v`: the document declares `v` as an example (field `ef`, or an item of the list
    field `esf`) of the sub-schema found at property path `path`; every property step may pass through the one
    level of anyOf / oneOf / allOf the code expands (`branch ∈ expandSubschemas sub`). -/
inductive Declared (ef esf : String) : Json → List Seg → Json → Prop
  | example (schema props : Json) (name : String) (sub branch v : Json) :
      schema.get? "properties" = some props → (name, sub) ∈ objItems props → branch ∈ expandSubschemas sub →
      branch.get? ef = some v → Declared ef esf schema [.prop name] v
  | examples (schema props : Json) (name : String) (sub branch : Json) (vs : List Json) (v : Json) :
      schema.get? "properties" = some props → (name, sub) ∈ objItems props → branch ∈ expandSubschemas sub →
      branch.get? esf = some (.arr vs) → v ∈ vs → Declared ef esf schema [.prop name] v
  | nested (schema props : Json) (name : String) (sub branch : Json) (path : List Seg) (v : Json) :
      schema.get? "properties" = some props → (name, sub) ∈ objItems props → branch ∈ expandSubschemas sub →
      Declared ef esf branch path v → Declared ef esf schema (.prop name :: path) v
  | items (schema : Json) (its : List (String × Json)) (path : List Seg) (v : Json) :
      schema.get? "properties" = none → schema.get? "items" = some (.obj its) →
      Declared ef esf (.obj its) path v → Declared ef esf schema (.item :: path) v

/-- the value found at `path` inside a body / parameter value -/
inductive At : Json → List Seg → Json → Prop
  | here (v : Json) : At v [] v
  | prop (kvs : List (String × Json)) (name : String) (x : Json) (path : List Seg) (v : Json) :
      (name, x) ∈ kvs → At x path v → At (.obj kvs) (.prop name :: path) v
  | item (x : Json) (path : List Seg) (v : Json) : At x path v → At (.arr [x]) (.item :: path) v

/-- a sub-schema reachable through any nesting of anyOf / oneOf branches -/
inductive Branch : Json → Json → Prop
  | self (s : Json) : Branch s s
  | anyOf (kvs : List (String × Json)) (subs : List Json) (sub b : Json) :
      Json.lookup "anyOf" kvs = some (.arr subs) → sub ∈ subs → Branch sub b → Branch (.obj kvs) b
  | oneOf (kvs : List (String × Json)) (subs : List Json) (sub b : Json) :
      Json.lookup "oneOf" kvs = some (.arr subs) → sub ∈ subs → Branch sub b → Branch (.obj kvs) b

def valueOf : Example → Json
  | .param _ _ v => v
  | .body v _ => v

/-- executable `At` -/
def atB : List Seg → Json → Json → Bool
  | [], x, v => x == v
  | .prop n :: p, .obj kvs, v => kvs.any fun kv => kv.1 == n && atB p kv.2 v
  | .item :: p, .arr [x], v => atB p x v
  | _, _, _ => false

/-- what the document makes us expect: value `value` at `path` inside parameter `name` of `container`
    (or inside the body sent with media type `name`) -/
structure Expect where
  isBody : Bool
  container : String
  name : String
  path : List Seg
  value : Json

/-- one case (keyword arguments of the request) meets the expectation -/
def meetsB (ps : Containers) (b : Option (String × Json)) (e : Expect) : Bool :=
  if e.isBody then
    match b with
    | some (mt, x) => mt == e.name && atB e.path x e.value
    | none => false
  else
    match lookupC e.container ps with
    | some cont => (match lookupC e.name cont with | some x => atB e.path x e.value | none => false)
    | none => false

/-! ### vocabulary of the allOf theorems, full statements and witness documents -/

/-- `v` is an example of the (merged) subschema in the OpenAPI 3 reading: its `example`, or an item of `examples` -/
def InExamples (acc : List (String × Json)) (v : Json) : Prop :=
  ∃ vs, Json.lookup "examples" acc = some (.arr vs) ∧ v ∈ vs

/-- a later allOf item contributes `v` as its `example` or as an item of its `examples` list -/
def Contributes (kvs : List (String × Json)) (v : Json) : Prop :=
  ("example", v) ∈ kvs ∨ ∃ ws, ("examples", Json.arr ws) ∈ kvs ∧ v ∈ ws

/-- the full statement: examples of a container survive for the names the user did not set -/
def UserConfigKeepsExamples (variant : Variant) : Prop :=
  ∀ (combo user : Containers) (b : Option (String × Json)) (c n : String) (v : Json),
    Carries combo b (.param c n v) → (∀ kc ∈ user, kc.1 = c → ∀ nv ∈ kc.2, nv.1 ≠ n) →
    Carries (mergeKwargs variant combo user) b (.param c n v)

/-- the full statement: if building the examples fails, the operation ends as an error -/
def DroppedIsReported (vExc vHdr : Variant) : Prop :=
  ∀ e : Exc, runStatus (addExamples vExc vHdr (.error e)) = .error

/-- the full statement: an example that *can* be sent survives the removal of unsendable headers -/
def SendableExamplesSurvive (vHdr : Variant) : Prop :=
  ∀ (cases : List ECase) (c : ECase) (e : Example), c ∈ cases → Carries c.params c.body e →
    (∀ n v, e = .param "headers" n v → n ∉ c.invalidHeaders) →
    ∃ c' ∈ (addLoop vHdr cases).1, Carries c'.params c'.body e

/-- parameter `q` with schema `anyOf: [ { oneOf: [ {type: string, example: "DEEP"} ] } ]` -/
def deepParam : Source :=
  { isBody := false, container := "query", name := "q",
    definition := .obj [("name", .str "q"), ("in", .str "query"),
      ("schema", .obj [("anyOf", .arr [.obj [("oneOf", .arr [.obj [("type", .str "string"), ("example", .str "DEEP")]])]])])],
    exampleFields := ["example"], examplesField := "examples", unresolved := .null, respValues := [],
    jsonSchema := .obj [], schemaFields := [("example", "examples")] }

/-- the full statement: an example on a sub-schema reachable through *any* nesting of anyOf / oneOf is extracted -/
def ExtractsAtAnyDepth (vRef : Variant) : Prop :=
  ∀ (s : Source) (sch branch : Json) (f : String) (v : Json), s.definition.get? "schema" = some sch →
    Branch sch branch → f ∈ s.exampleFields → branch.get? f = some v → s.mk' v ∈ extractTopLevel vRef [s]

/-- body schema `anyOf: [ {type: object, properties: {b: {type: string, example: "AP"}}} ]` -/
def deepBodySchema : Json :=
  .obj [("anyOf", .arr [.obj [("type", .str "object"),
    ("properties", .obj [("b", .obj [("type", .str "string"), ("example", .str "AP")])])]])]

/-- the full statement: property examples of a sub-schema reachable through body-level combinators are extracted -/
def ExtractsUnderBodyCombinator : Prop :=
  ∀ (gen : Json → Json) (ef esf : String) (schema branch : Json) (path : List Seg) (v : Json),
    Branch schema branch → Declared ef esf branch path v →
    ∃ fuel, ∃ obj ∈ extractFromSchemaF gen ef esf fuel schema, At obj path v

/-- Swagger 2.0 body parameter whose schema is `allOf: [ {type: object}, {example: {s: "LATE"}} ]` -/
def swaggerAllOfBody : Source :=
  { isBody := true, container := "", name := "application/json",
    definition := .obj [("name", .str "b"), ("in", .str "body"),
      ("schema", .obj [("allOf", .arr [.obj [("type", .str "object")],
                                       .obj [("example", .obj [("s", .str "LATE")])]])])],
    exampleFields := ["x-example", "example"], examplesField := "x-examples", unresolved := .null, respValues := [],
    jsonSchema := .obj [], schemaFields := [("example", "examples"), ("x-example", "x-examples")] }

/-- the full statement of `C17_extract_allOf_items` without the OpenAPI 3 field-name hypothesis -/
def AllOfItemsExtracted (vRef : Variant) : Prop :=
  ∀ (s : Source) (kvs first : List (String × Json)) (rest : List Json) (v : Json),
    s.definition.get? "schema" = some (.obj kvs) → Json.lookup "allOf" kvs = some (.arr (.obj first :: rest)) →
    "example" ∈ s.exampleFields → (∃ b, Json.obj b ∈ rest ∧ Contributes b v) → s.mk' v ∈ extractTopLevel vRef [s]

/-- the full statement: a referenced example that is not an Example Object is used as it is -/
def ReferencedBareExampleExtracted (vRef : Variant) : Prop :=
  ∀ (srcs : List Source) (s : Source), s ∈ srcs → ∀ (exs : Json), s.definition.get? s.examplesField = some exs →
    ∀ (k : String) (ex : Json), (k, ex) ∈ objItems exs → hasKey ((s.unresolved.get? k).getD .null) "$ref" = true →
    hasKey ex "value" = false → hasKey ex "externalValue" = false → s.mk' ex ∈ extractTopLevel vRef srcs

/-- parameter `q` whose `examples.a` is `{$ref: '#/components/examples/Raw'}` and `Raw` is the string "a value here" -/
def refStringParam : Source :=
  { isBody := false, container := "query", name := "q",
    definition := .obj [("name", .str "q"), ("in", .str "query"), ("examples", .obj [("a", .str "a value here")])],
    exampleFields := ["example"], examplesField := "examples",
    unresolved := .obj [("a", .obj [("$ref", .str "#/components/examples/Raw")])], respValues := [],
    jsonSchema := .obj [], schemaFields := [("example", "examples")] }

def exParam : Source :=
  { isBody := false, container := "query", name := "q",
    definition := .obj [("name", .str "q"), ("in", .str "query"), ("example", .str "E0"),
      ("examples", .obj [("a", .obj [("value", .str "E1")])]),
      ("schema", .obj [("example", .str "E2"), ("examples", .arr [.str "E3"]),
        ("oneOf", .arr [.obj [("example", .str "E4")]]),
        ("allOf", .arr [.obj [("type", .str "string"), ("example", .str "E5")], .obj [("example", .str "E6")]])])],
    exampleFields := ["example"], examplesField := "examples", unresolved := .obj [("a", .obj [("value", .str "E1")])],
    respValues := [], jsonSchema := .obj [], schemaFields := [("example", "examples")] }

/-- a body schema with an example two property levels down, reached through an `items` step -/
def nestedSchema : Json :=
  .obj [("type", .str "array"), ("items", .obj [("type", .str "object"), ("properties",
    .obj [("a", .obj [("type", .str "object"), ("properties",
      .obj [("b", .obj [("oneOf", .arr [.obj [("type", .str "string"), ("example", .str "NB")]])])])])])])]

/-! ### the examples phase of one operation as a whole: configurations, histories, faults -/

/-- the property for one declared example `e` that the generated case `c` carries: it is sent unchanged by some
    request, or it is a header that cannot be put on the wire and the operation ends as an error that reports the
    unsendable header examples and names this one -/
def SentOrReported (res : ScenarioResult) (c : ECase) (e : Example) : Prop :=
  (∃ c' ∈ res.executed, Carries c'.params c'.body e) ∨
  (∃ n v, e = .param "headers" n v ∧ n ∈ c.invalidHeaders ∧ res.status = .error ∧
    ∃ names, Report.invalidHeaders names ∈ res.reports ∧ n ∈ names)

/-- the weaker reading: the operation is reported as an error about unsendable header examples (this one possibly
    not among the names listed) -/
def SentOrOperationReported (res : ScenarioResult) (c : ECase) (e : Example) : Prop :=
  (∃ c' ∈ res.executed, Carries c'.params c'.body e) ∨
  (∃ n v, e = .param "headers" n v ∧ n ∈ c.invalidHeaders ∧ res.status = .error ∧
    ∃ names, Report.invalidHeaders names ∈ res.reports)

/-- the run is not cut short on the user's own request: a failed check stops the scenario unless
    continue_on_failure is on (fail-fast is the documented default), an erroring request stops it only when
    `report_multiple_bugs` was switched off -/
def NeverStopsEarly (cfg : RunCfg) : Prop :=
  (∀ x, cfg.verdict x = .fail → cfg.cof = true) ∧ (∀ x, cfg.verdict x = .error → cfg.rmb = true)

/-- the full statement over every Hypothesis configuration that runs explicit examples (any subset of phases with
    `explicit`, any database), every database content (= every history of earlier runs) and every behaviour of the
    API / transport (passing, failing checks, erroring requests) that does not cut the run short (`NeverStopsEarly`) -/
def EveryExampleSentOrReported (vHdr vMark vHash : Variant) : Prop :=
  ∀ (vExc : Variant) (cases db : List ECase) (cfg : RunCfg), cfg.mode = .examples → HPhase.explicit ∈ cfg.phases →
    NeverStopsEarly cfg →
    ∀ c ∈ cases, ∀ e, Carries c.params c.body e → SentOrReported (scenario vExc vHdr vMark vHash (.ok cases) db cfg) c e

/-- the statement as the property text has it, without `NeverStopsEarly` -/
def EveryExampleSentOrReportedAlways (vHdr vMark vHash : Variant) : Prop :=
  ∀ (vExc : Variant) (cases db : List ECase) (cfg : RunCfg), cfg.mode = .examples → HPhase.explicit ∈ cfg.phases →
    ∀ c ∈ cases, ∀ e, Carries c.params c.body e → SentOrReported (scenario vExc vHdr vMark vHash (.ok cases) db cfg) c e

/-- parameter `q` with the examples Q1, Q2 -/
def twoQueryExamples : List ECase :=
  [⟨[("query", [("q", .str "Q1")])], none, []⟩, ⟨[("query", [("q", .str "Q2")])], none, []⟩]

/-- header `X-API-Key` with the examples KEY1, KEY2 -/
def twoApiKeys : List ECase :=
  [⟨[("headers", [("X-API-Key", .str "KEY1")])], none, []⟩, ⟨[("headers", [("X-API-Key", .str "KEY2")])], none, []⟩]

/-- the API answers 500 to `q=Q2` (a failed check), 200 otherwise -/
def failsOnQ2 (c : ECase) : Verdict :=
  match c.params with
  | [("query", [("q", .str "Q2")])] => .fail
  | _ => .pass

/-- the full statement about marks: whatever `add_examples` could not turn into a test is reported by `run_test`,
    however the test itself ended -/
def MarkAlwaysReported (m : Mark) (rep : Report) : Prop :=
  ∀ (raised : Raised) (cof : Bool) (n : Nat), rep ∈ (runTest raised cof n [m] []).2

/-! #### executable judgement of what the real code produced (replay) -/

/-- what was observed for one operation in the examples phase -/
structure Observed where
  cases : List ECase         -- the requests received / the cases the test body ran on
  status : Status
  reports : List Report

def reportsInvalidHeaders (o : Observed) : Bool :=
  o.reports.any fun r => match r with | .invalidHeaders _ => true | _ => false

def namesInvalidHeader (o : Observed) (name : String) : Bool :=
  o.reports.any fun r => match r with | .invalidHeaders names => names.contains name | _ => false

def isSent (o : Observed) (e : Expect) : Bool := o.cases.any fun c => meetsB c.params c.body e

/-- the clauses of the property that the observation violates.  `sendable` / `unsendable`: the examples the document
    declares for the operation (the latter: header values that cannot be sent over HTTP);
    `judgeSendable = false` when the configuration asked to stop at the first failure and one occurred. -/
def judge (sendable unsendable : List Expect) (judgeSendable : Bool) (o : Observed) : List String :=
  (if sendable.isEmpty && unsendable.isEmpty then
    (if o.cases.isEmpty then [] else ["sent-without-examples"]) ++
    (if o.status == .skip then [] else ["not-skipped-without-examples"])
   else []) ++
  (if judgeSendable then
    (sendable.filter fun e => !isSent o e).map fun e => "example-not-sent:" ++ e.name else []) ++
  ((unsendable.filter fun e => !isSent o e && !(o.status == .error && reportsInvalidHeaders o)).map
    fun e => "unsendable-not-reported:" ++ e.name) ++
  ((unsendable.filter fun e => !isSent o e && (o.status == .error && reportsInvalidHeaders o) &&
      !namesInvalidHeader o e.name).map fun e => "unsendable-not-named:" ++ e.name)

/-- the history of the seeded scenario: fuzzing stores a failing input, then the examples phase runs with
    `phases=[explicit, reuse]` on the same database -/
def stored : ECase := ⟨[("query", [("limit", .num 0 0)])], none, []⟩
def fuzzThenExamples : List RunCfg :=
  [⟨.fuzzing, defaultPhases, true, false, false, [], true, [stored], fun _ => .fail⟩,
   ⟨.examples, [.explicit, .reuse], true, false, false, [], true, [], fun _ => .fail⟩]

/-- two header parameters whose unsendable examples are combined with different cases -/
def twoBadHeaders : List ECase :=
  [⟨[("headers", [("X-A", .str "ok"), ("X-B", .str "b\nb")])], none, ["X-B"]⟩,
   ⟨[("headers", [("X-A", .str "a\na"), ("X-B", .str "ok")])], none, ["X-A"]⟩]

end SV.Spec.C17
