/-
  Reference predicates for C17, written from the property statement (not from the code).
-/
import SV.Model.C17

namespace SV.Spec.C17
open SV SV.Model.C17

/-- the keyword arguments of one examples-phase case carry the example unchanged at its own place -/
def Carries (ps : Containers) (b : Option (String × Json)) : Example → Prop
  | .param c n v => ∃ cont, lookupC c ps = some cont ∧ lookupC n cont = some v
  | .body v mt => b = some (mt, v)

/-- executable form of `Carries` (structural `Json.beq`), used by the replay on what the real code produced -/
def carriesB (ps : Containers) (b : Option (String × Json)) : Example → Bool
  | .param c n v =>
    match lookupC c ps with
    | some cont => (match lookupC n cont with | some x => x == v | none => false)
    | none => false
  | .body v mt =>
    match b with
    | some (mt', x) => mt' == mt && x == v
    | none => false

/-! ### examples declared on (nested) properties of a schema -/

inductive Seg where
  | prop (name : String)
  | item
  deriving Repr, DecidableEq

/-- `Declared ef esf schema path v`: the document declares `v` as an example (field `ef`, or an item of the list
    field `esf`) of the sub-schema found at property path `path`; every property step may pass through the one
    level of anyOf / oneOf / allOf the code expands (`branch ∈ expandSubschemas sub`). -/
inductive Declared (ef esf : String) : Json → List Seg → Json → Prop
  | example (schema props : Json) (name : String) (sub branch v : Json) :
      schema.get? "properties" = some props → (name, sub) ∈ objItems props → branch ∈ expandSubschemas sub →
      branch.get? ef = some v → Declared ef esf schema [.prop name] v
  | examples (schema props : Json) (name : String) (sub branch : Json) (vs : List Json) (v : Json) :
      schema.get? "properties" = some props → (name, sub) ∈ objItems props → branch ∈ expandSubschemas sub →
      branch.get? esf = some (.arr vs) → v ∈ vs → Declared ef esf schema [.prop name] v
  | nested (schema props : Json) (name : String) (sub branch : Json) (path : List Seg) (v : Json) :
      schema.get? "properties" = some props → (name, sub) ∈ objItems props → branch ∈ expandSubschemas sub →
      Declared ef esf branch path v → Declared ef esf schema (.prop name :: path) v
  | items (schema : Json) (its : List (String × Json)) (path : List Seg) (v : Json) :
      schema.get? "properties" = none → schema.get? "items" = some (.obj its) →
      Declared ef esf (.obj its) path v → Declared ef esf schema (.item :: path) v

/-- the value found at `path` inside a body / parameter value -/
inductive At : Json → List Seg → Json → Prop
  | here (v : Json) : At v [] v
  | prop (kvs : List (String × Json)) (name : String) (x : Json) (path : List Seg) (v : Json) :
      (name, x) ∈ kvs → At x path v → At (.obj kvs) (.prop name :: path) v
  | item (x : Json) (path : List Seg) (v : Json) : At x path v → At (.arr [x]) (.item :: path) v

/-- a sub-schema reachable through any nesting of anyOf / oneOf branches -/
inductive Branch : Json → Json → Prop
  | self (s : Json) : Branch s s
  | anyOf (kvs : List (String × Json)) (subs : List Json) (sub b : Json) :
      Json.lookup "anyOf" kvs = some (.arr subs) → sub ∈ subs → Branch sub b → Branch (.obj kvs) b
  | oneOf (kvs : List (String × Json)) (subs : List Json) (sub b : Json) :
      Json.lookup "oneOf" kvs = some (.arr subs) → sub ∈ subs → Branch sub b → Branch (.obj kvs) b

def valueOf : Example → Json
  | .param _ _ v => v
  | .body v _ => v

/-- executable `At` -/
def atB : List Seg → Json → Json → Bool
  | [], x, v => x == v
  | .prop n :: p, .obj kvs, v => kvs.any fun kv => kv.1 == n && atB p kv.2 v
  | .item :: p, .arr [x], v => atB p x v
  | _, _, _ => false

/-- what the document makes us expect: value `value` at `path` inside parameter `name` of `container`
    (or inside the body sent with media type `name`) -/
structure Expect where
  isBody : Bool
  container : String
  name : String
  path : List Seg
  value : Json

/-- one case (keyword arguments of the request) meets the expectation -/
def meetsB (ps : Containers) (b : Option (String × Json)) (e : Expect) : Bool :=
  if e.isBody then
    match b with
    | some (mt, x) => mt == e.name && atB e.path x e.value
    | none => false
  else
    match lookupC e.container ps with
    | some cont => (match lookupC e.name cont with | some x => atB e.path x e.value | none => false)
    | none => false

/-! ### vocabulary of the allOf theorems, full statements and witness documents -/

/-- `v` is an example of the (merged) subschema in the OpenAPI 3 reading: its `example`, or an item of `examples` -/
def InExamples (acc : List (String × Json)) (v : Json) : Prop :=
  ∃ vs, Json.lookup "examples" acc = some (.arr vs) ∧ v ∈ vs

/-- a later allOf item contributes `v` as its `example` or as an item of its `examples` list -/
def Contributes (kvs : List (String × Json)) (v : Json) : Prop :=
  ("example", v) ∈ kvs ∨ ∃ ws, ("examples", Json.arr ws) ∈ kvs ∧ v ∈ ws

/-- the full statement: examples of a container survive for the names the user did not set -/
def UserConfigKeepsExamples (variant : Variant) : Prop :=
  ∀ (combo user : Containers) (b : Option (String × Json)) (c n : String) (v : Json),
    Carries combo b (.param c n v) → (∀ kc ∈ user, kc.1 = c → ∀ nv ∈ kc.2, nv.1 ≠ n) →
    Carries (mergeKwargs variant combo user) b (.param c n v)

/-- the full statement: if building the examples fails, the operation ends as an error -/
def DroppedIsReported (vExc vHdr : Variant) : Prop :=
  ∀ e : Exc, runStatus (addExamples vExc vHdr (.error e)) = .error

/-- the full statement: an example that *can* be sent survives the removal of unsendable headers -/
def SendableExamplesSurvive (vHdr : Variant) : Prop :=
  ∀ (cases : List ECase) (c : ECase) (e : Example), c ∈ cases → Carries c.params c.body e →
    (∀ n v, e = .param "headers" n v → n ∉ c.invalidHeaders) →
    ∃ c' ∈ (addLoop vHdr cases).1, Carries c'.params c'.body e

/-- parameter `q` with schema `anyOf: [ { oneOf: [ {type: string, example: "DEEP"} ] } ]` -/
def deepParam : Source :=
  { isBody := false, container := "query", name := "q",
    definition := .obj [("name", .str "q"), ("in", .str "query"),
      ("schema", .obj [("anyOf", .arr [.obj [("oneOf", .arr [.obj [("type", .str "string"), ("example", .str "DEEP")]])]])])],
    exampleFields := ["example"], examplesField := "examples", unresolved := .null, respValues := [],
    jsonSchema := .obj [], schemaFields := [("example", "examples")] }

/-- the full statement: an example on a sub-schema reachable through *any* nesting of anyOf / oneOf is extracted -/
def ExtractsAtAnyDepth : Prop :=
  ∀ (s : Source) (sch branch : Json) (f : String) (v : Json), s.definition.get? "schema" = some sch →
    Branch sch branch → f ∈ s.exampleFields → branch.get? f = some v → s.mk' v ∈ extractTopLevel [s]

/-- body schema `anyOf: [ {type: object, properties: {b: {type: string, example: "AP"}}} ]` -/
def deepBodySchema : Json :=
  .obj [("anyOf", .arr [.obj [("type", .str "object"),
    ("properties", .obj [("b", .obj [("type", .str "string"), ("example", .str "AP")])])]])]

/-- the full statement: property examples of a sub-schema reachable through body-level combinators are extracted -/
def ExtractsUnderBodyCombinator : Prop :=
  ∀ (gen : Json → Json) (ef esf : String) (schema branch : Json) (path : List Seg) (v : Json),
    Branch schema branch → Declared ef esf branch path v →
    ∃ fuel, ∃ obj ∈ extractFromSchemaF gen ef esf fuel schema, At obj path v

/-- Swagger 2.0 body parameter whose schema is `allOf: [ {type: object}, {example: {s: "LATE"}} ]` -/
def swaggerAllOfBody : Source :=
  { isBody := true, container := "", name := "application/json",
    definition := .obj [("name", .str "b"), ("in", .str "body"),
      ("schema", .obj [("allOf", .arr [.obj [("type", .str "object")],
                                       .obj [("example", .obj [("s", .str "LATE")])]])])],
    exampleFields := ["x-example", "example"], examplesField := "x-examples", unresolved := .null, respValues := [],
    jsonSchema := .obj [], schemaFields := [("example", "examples"), ("x-example", "x-examples")] }

/-- the full statement of `C17_extract_allOf_items` without the OpenAPI 3 field-name hypothesis -/
def AllOfItemsExtracted : Prop :=
  ∀ (s : Source) (kvs first : List (String × Json)) (rest : List Json) (v : Json),
    s.definition.get? "schema" = some (.obj kvs) → Json.lookup "allOf" kvs = some (.arr (.obj first :: rest)) →
    "example" ∈ s.exampleFields → (∃ b, Json.obj b ∈ rest ∧ Contributes b v) → s.mk' v ∈ extractTopLevel [s]

def exParam : Source :=
  { isBody := false, container := "query", name := "q",
    definition := .obj [("name", .str "q"), ("in", .str "query"), ("example", .str "E0"),
      ("examples", .obj [("a", .obj [("value", .str "E1")])]),
      ("schema", .obj [("example", .str "E2"), ("examples", .arr [.str "E3"]),
        ("oneOf", .arr [.obj [("example", .str "E4")]]),
        ("allOf", .arr [.obj [("type", .str "string"), ("example", .str "E5")], .obj [("example", .str "E6")]])])],
    exampleFields := ["example"], examplesField := "examples", unresolved := .obj [("a", .obj [("value", .str "E1")])],
    respValues := [], jsonSchema := .obj [], schemaFields := [("example", "examples")] }

/-- a body schema with an example two property levels down, reached through an `items` step -/
def nestedSchema : Json :=
  .obj [("type", .str "array"), ("items", .obj [("type", .str "object"), ("properties",
    .obj [("a", .obj [("type", .str "object"), ("properties",
      .obj [("b", .obj [("oneOf", .arr [.obj [("type", .str "string"), ("example", .str "NB")]])])])])])])]

end SV.Spec.C17
