/-
  Reference predicates for C18, written from the property statement (not from the code):
  * a request is a *use after free* iff it was answered neither 404 nor 5xx and some other request of the same
    scenario tree is a DELETE that was itself answered 2xx and addresses the same resource;
  * *same resource* = the DELETE's path template is a segment-wise prefix of the request's template where literal
    segments agree (up to the plural `s` the code base tolerates) and variable segments carry equal identifier values.
-/
import SV.Model.C18

namespace SV.Spec.C18
open SV.Model.C18

/-- one template segment of the candidate prefix against the corresponding segment of the request -/
def segMatch (l r : RPath) (left right : List Char) : Bool :=
  if startsWithBrace left && startsWithBrace right then
    match l.get left, r.get right with
    | some a, some b => a == b
    | _, _ => false
  else left == right || rstripChar 's' left == rstripChar 's' right

/-- every brace segment pair that will be compared has both identifiers bound (otherwise Python raises KeyError) -/
def segBound (l r : RPath) (left right : List Char) : Bool :=
  if startsWithBrace left && startsWithBrace right then (l.get left).isSome && (r.get right).isSome else true

def allMatch (l r : RPath) : List (List Char) → List (List Char) → Bool
  | a :: as, b :: bs => segMatch l r a b && allMatch l r as bs
  | _, _ => true

def allBound (l r : RPath) : List (List Char) → List (List Char) → Bool
  | a :: as, b :: bs => segBound l r a b && allBound l r as bs
  | _, _ => true

def sameResource (l r : RPath) : Bool :=
  (parts l).length ≤ (parts r).length && allMatch l r (parts l) (parts r)

def bound (l r : RPath) : Bool := allBound l r (parts l) (parts r)

/-- all pairs the loops may compare are bound (no Python `KeyError`) -/
def relsBound (rels : List Node) (cur : Node) : Bool := rels.all fun n => bound n.rpath cur.rpath

def deleted2xx (n : Node) : Bool :=
  isDelete n && (match n.status with | some s => is2xx s | none => false)

/-- the reference verdict over a set of related requests (`rels` = the other requests of the scenario tree) -/
def specUAF (rels : List Node) (cur : Node) (status : Nat) : Bool :=
  status != 404 && status < 500 && rels.any (fun n => deleted2xx n && sameResource n.rpath cur.rpath)

/-- necessary conditions for "resource not available after creation" -/
def specERA (t : Tree) (rels : List Node) (cur : Node) (status : Nat) (o : Overrides)
    (params : List (String × String)) : Bool :=
  400 ≤ status && status < 500 &&
  (match findParent t cur.id with
   | some p => isPost p && (match p.status with | some s => 200 ≤ s && s < 400 | none => false)
               && sameResource p.rpath cur.rpath
   | none => false) &&
  allOverridden o params &&
  !(rels.any (fun n => deleted2xx n && sameResource n.rpath cur.rpath))

end SV.Spec.C18
