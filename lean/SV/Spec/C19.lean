/-
  Reference semantics for C19, written from the property statement (not from the code):

  "each registration owns exactly the filters chained on its own decorator expression"

  * History level (`pendingWrites`, `decoWrites`, `addAll`): the filters of a hook registered by `register(hook)` are
    those chained on `register` since the previous `register(...)` call of the same `to_filterable_hook` instance;
    the filters of a hook registered through `d = register("name")` are those plus everything chained on `d`.
  * State level (`ASt`, `astep`): the same thing as a machine that has NO heap and NO aliasing — filter sets are
    values; a function-form hook receives a private copy, a by-name hook is linked to its decorator's value.
  * Application (`specApplied`): a registered hook is applied to an operation iff it has no filter or its filter
    matches, whatever else is registered.
-/
import SV.Model.C19

namespace SV.Spec.C19
open SV.Model.C19

/-! ## history level -/

/-- add a list of chained `apply_to` (`true`) / `skip_for` (`false`) filters; a duplicate raises and adds nothing -/
def addAll (s : FS) : List (Bool × Nat) → FS
  | [] => s
  | (incl, f) :: ws => addAll ((s.add incl f).getD s) ws

/-- the filters chained on `register` of machine `m` that the NEXT `register(...)` call of `m` will own,
    given the ones pending before the history (`acc`) -/
def pendingWrites (m : Nat) (acc : List (Bool × Nat)) : List Op → List (Bool × Nat)
  | [] => acc
  | .regApply m' incl f :: ops => pendingWrites m (if m' = m then acc ++ [(incl, f)] else acc) ops
  | .registerFn m' _ _ :: ops => pendingWrites m (if m' = m then [] else acc) ops
  | .registerName m' _ :: ops => pendingWrites m (if m' = m then [] else acc) ops
  | _ :: ops => pendingWrites m acc ops

/-- the filters chained on decorator `d` in a history -/
def decoWrites (d : Nat) : List Op → List (Bool × Nat)
  | [] => []
  | .decoApply d' incl f :: ops => if d' = d then (incl, f) :: decoWrites d ops else decoWrites d ops
  | _ :: ops => decoWrites d ops

/-- `h` is not registered again with a filter assignment -/
def noReReg (h : Nat) : List Op → Bool
  | [] => true
  | .registerFn _ h' _ :: ops => h' != h && noReReg h ops
  | .decorate _ h' :: ops => h' != h && noReReg h ops
  | _ :: ops => noReReg h ops

/-! ## state level: the aliasing-free reference machine -/

inductive Src where
  | val (v : FS)       -- a private value (function form)
  | deco (d : Nat)     -- whatever decorator `d` carries (by-name form)
  deriving Repr, DecidableEq

structure ASt where
  nM : Nat
  mDisp : Nat → Nat
  pend : Nat → FS                     -- filters chained on `register` so far
  nD : Nat
  dM : Nat → Nat
  dName : Nat → HookName
  dDead : Nat → Bool
  dFs : Nat → FS                      -- filters of decorator `d`
  filt : Nat → Option Src
  hooks : Nat → List (HookName × Nat)

def ainit (nM : Nat) (disp : Nat → Nat) : ASt :=
  { nM := nM, mDisp := disp, pend := fun _ => FS.empty, nD := 0, dM := fun _ => 0, dName := fun _ => .beforeCall, dDead := fun _ => false,
    dFs := fun _ => FS.empty, filt := fun _ => none, hooks := fun _ => [] }

def aaddHook (s : ASt) (disp : Nat) (n : HookName) (h : Nat) : ASt :=
  { s with hooks := upd s.hooks disp (s.hooks disp ++ [(n, h)]) }

def astep (s : ASt) : Op → ASt × Out
  | .regApply m incl f =>
    if m < s.nM then
      match (s.pend m).add incl f with
      | none => (s, .filterExists)
      | some v => ({ s with pend := upd s.pend m v }, .ok)
    else (s, .badRef)
  | .registerFn m h n =>
    if m < s.nM then
      let own := s.pend m
      let s := { s with pend := upd s.pend m FS.empty }
      if !own.isEmpty && !n.filterable then (s, .valueError)
      else (aaddHook { s with filt := upd s.filt h (some (.val own)) } (s.mDisp m) n h, .ok)
    else (s, .badRef)
  | .registerName m n =>
    if m < s.nM then
      let own := s.pend m
      let s := { s with pend := upd s.pend m FS.empty }
      if !own.isEmpty && !n.filterable then
        ({ s with nD := s.nD + 1, dM := upd s.dM s.nD m, dName := upd s.dName s.nD n, dDead := upd s.dDead s.nD true,
                  dFs := upd s.dFs s.nD own }, .valueError)
      else ({ s with nD := s.nD + 1, dM := upd s.dM s.nD m, dName := upd s.dName s.nD n, dDead := upd s.dDead s.nD false,
                     dFs := upd s.dFs s.nD own }, .okDeco s.nD)
    else (s, .badRef)
  | .decoApply d incl f =>
    if d < s.nD && !s.dDead d then
      match (s.dFs d).add incl f with
      | none => (s, .filterExists)
      | some v => ({ s with dFs := upd s.dFs d v }, .ok)
    else (s, .badRef)
  | .decorate d h =>
    if d < s.nD && !s.dDead d then
      if !(s.dFs d).isEmpty && !(s.dName d).filterable then (s, .valueError)
      else (aaddHook { s with filt := upd s.filt h (some (.deco d)) } (s.mDisp (s.dM d)) (s.dName d) h, .ok)
    else (s, .badRef)
  | .applyHook disp h n => (aaddHook s disp n h, .ok)
  | .unregister disp h => ({ s with hooks := upd s.hooks disp ((s.hooks disp).filter fun p => p.2 != h) }, .ok)
  | .unregisterAll disp => ({ s with hooks := upd s.hooks disp [] }, .ok)

def arun (s : ASt) : List Op → ASt
  | [] => s
  | op :: ops => arun (astep s op).1 ops

def aouts (s : ASt) : List Op → List Out
  | [] => []
  | op :: ops => (astep s op).2 :: aouts (astep s op).1 ops

/-- the filter a hook carries in the reference machine -/
def afilterOf (s : ASt) (h : Nat) : Option FS :=
  match s.filt h with
  | none => none
  | some (.val v) => some v
  | some (.deco d) => some (s.dFs d)

/-! ## application -/

/-- a hook whose filter is `fs` is applied to operation `o` -/
def specApplies (mt : Nat → Nat → Bool) (fs : Option FS) (o : Nat) : Bool :=
  match fs with
  | none => true
  | some s => s.matches mt o

/-- reference reading of `FilterSet.match`: no EXCLUDE filter matches and (no INCLUDE filters or one matches) -/
def specMatches (mt : Nat → Nat → Bool) (s : FS) (o : Nat) : Prop :=
  (∀ f ∈ s.exc, mt f o = false) ∧ (s.inc = [] ∨ ∃ f ∈ s.inc, mt f o = true)

/-! ## auth handles -/

/-- the filters chained on auth handle `hd` in a history -/
def handleWrites (hd : Nat) : List AuthOp → List (Bool × Nat)
  | [] => []
  | .handleApply hd' incl f :: ops => if hd' = hd then (incl, f) :: handleWrites hd ops else handleWrites hd ops
  | _ :: ops => handleWrites hd ops

/-- the calls that hand out a filterable handle -/
def isCreate : AuthOp → Bool
  | .register _ | .apply _ _ | .setFromRequests _ _ => true
  | _ => false

end SV.Spec.C19
