/-
  Reference reading of "map/filter/flatmap/before_generate hooks of all applicable scopes are all applied to generated
  data, each exactly on the operations its own filters select", written from the property statement:

  the strategy for operation `o` carries, for each scope in the order GLOBAL, schema, test, for each kind in the order
  before_generate, filter, map, flatmap, one stage per hook registered on that scope under that name whose OWN filter
  admits `o`, in registration order; the stage calls THAT hook with the context of `o`.
-/
import SV.Spec.C19
import SV.Model.C19Pipeline

namespace SV.Spec.C19
open SV.Model.C19

/-- hooks registered under `n` whose own filter admits `o`, in registration order -/
def ownMatching (mt : Nat → Nat → Bool) (filt : Nat → Option FS) (hooks : List (HookName × Nat)) (n : HookName) (o : Nat) :
    List Nat :=
  (hooks.filter fun p => decide (p.1 = n) && specApplies mt (filt p.2) o).map (·.2)

/-- hooks registered under `n`, whatever their filter -/
def allNamed (hooks : List (HookName × Nat)) (n : HookName) : List Nat :=
  (hooks.filter fun p => decide (p.1 = n)).map (·.2)

def specStages (mt : Nat → Nat → Bool) (filt : Nat → Option FS) (hooks : Nat → List (HookName × Nat)) (withTest : Bool)
    (t : Target) (o : Nat) : List (Nat × Action × Nat × Option Nat) :=
  (scopes withTest).flatMap fun d => actions.flatMap fun a =>
    (ownMatching mt filt (hooks d) (.gen a t) o).map fun h => (d, a, h, some o)

/-- drop the scope tag -/
def untag (xs : List (Nat × Action × Nat × Option Nat)) : List (Action × Nat × Option Nat) := xs.map (·.2)

end SV.Spec.C19
