/-
  Reference predicates for C20, written from the property statement (not from the code):
  * the operations of a loaded schema are the fields of its query root followed by the fields of its mutation root;
  * an operation *passes the filters* iff no exclude filter matches it and (there is no include filter or some include
    filter matches it); a filter matches iff all of its criteria do;
  * `schema[T][f]` denotes the operation (root of T, T, f) — whatever was looked up before;
  * a document *targets* an operation iff it consists of exactly one operation definition of the operation's kind
    whose top-level selections are all plain fields named like the operation's field (and there is at least one).
-/
import SV.Model.C20

namespace SV.Spec.C20
open SV.Model.C20

def fieldsOf (root : Root) : Option TypeDef → List Op
  | none => []
  | some t => t.fields.map fun f => ⟨root, t.name, f⟩

/-- every root query field, then every root mutation field, in schema order -/
def rootFields (c : Client) : List Op := fieldsOf .query c.query ++ fieldsOf .mutation c.mutation

/-- "passes the filters" -/
def passes (F : FilterSet) (v : OpView) : Bool :=
  !(F.excludes.any fun f => f.all (·.matches v)) &&
  (F.includes.isEmpty || F.includes.any fun f => f.all (·.matches v))

def selected (F : FilterSet) (basePath : Name) (o : Op) : Bool := passes F (viewOf basePath o.label)

/-- what `schema[T][f]` must be, independent of any history -/
def specLookup (c : Client) (q : Name × Name) : Result :=
  match findRoot c q.1 with
  | none => .typeNotFound
  | some m => if m.type.fields.contains q.2 then .ok ⟨m.root, m.type.name, q.2⟩ else .fieldNotFound

/-- well-formed introspection result: type names are unique and no object type lists a field twice -/
def namesNodup (types : List TypeDef) : Prop := (types.map (·.name)).Nodup
def fieldsNodup (types : List TypeDef) : Prop := ∀ t ∈ types, t.fields.Nodup
def wellFormed (r : Raw) : Prop := namesNodup r.types ∧ fieldsNodup r.types

def rootType (c : Client) : Root → Option TypeDef
  | .query => c.query
  | .mutation => c.mutation

/-- the operation names a field that exists on the root type of its kind (so `queries(fields=[f])` /
    `mutations(fields=[f])` is a legal request for exactly that field) -/
def wellTargeted (c : Client) (o : Op) : Prop :=
  ∃ t, rootType c o.root = some t ∧ t.name = o.typeName ∧ o.field ∈ t.fields

/-- field names of the two root types do not overlap -/
def rootsDisjoint (c : Client) : Prop :=
  ∀ qt mt f, c.query = some qt → c.mutation = some mt → f ∈ qt.fields → f ∈ mt.fields → False

/-- the two root types are different types (the normal case; graphql-core 3.2 also accepts one type for both) -/
def rootNamesDistinct (c : Client) : Prop :=
  ∀ qt mt, c.query = some qt → c.mutation = some mt → qt.name ≠ mt.name

/-- GraphQL names never contain a dot -/
def dotFree (n : Name) : Prop := '.' ∉ n

/-- summary of a parsed GraphQL document: per operation definition its kind (`none` = subscription) and its
    top-level selections (`some f` = plain field `f`, `none` = fragment spread / inline fragment) -/
abbrev DocSummary := List (Option Root × List (Option Name))

def targets (o : Op) (d : DocSummary) : Bool :=
  match d with
  | [(kind, sels)] => kind == some o.root && !sels.isEmpty && sels.all (· == some o.field)
  | _ => false

/-- hypothesis-graphql's contract, as far as targeting goes (a hypothesis of `document_targets_under_contract`,
    exercised by sampling in the harness): `queries/mutations(schema, fields=fs)` only produce documents with a single
    operation of that kind whose top-level selections are a non-empty list of plain fields taken from `fs`. -/
def GenContract (gen : Root → List Name → DocSummary → Prop) : Prop :=
  ∀ r fs d, gen r fs d → ∃ sels, d = [(some r, sels)] ∧ sels ≠ [] ∧ ∀ x ∈ sels, ∃ f ∈ fs, x = some f

end SV.Spec.C20
