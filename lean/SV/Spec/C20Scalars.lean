/-
  Reference predicates for the argument values of C20 ("uses only values acceptable for the declared argument types,
  including built-in … scalars"), written from the definitions of the scalar types, not from the code:
    Long      a GraphQL IntValue (`-?(0|[1-9][0-9]*)`) denoting a 64-bit signed integer;
    BigInt    a GraphQL IntValue;
    Date      RFC 3339 `full-date`   (YYYY-MM-DD, month 01–12, day valid for month and year);
    Time      RFC 3339 `full-time`   (HH:MM:SS, optional fraction, then `Z` or a numeric offset);
    DateTime  RFC 3339 `date-time`   (full-date "T" full-time);
    IPv4      dotted quad of four decimal octets 0–255 without leading zeros;
    IPv6      RFC 4291 §2.2 text representation; IP: either;
    UUID      RFC 4122 text: 8-4-4-4-12 hexadecimal digits.
  Values are string literals except Long / BigInt, which are integer literals.
-/
import SV.Model.C20Scalars

namespace SV.Spec.C20
open SV.Model.C20

inductive Scalar where
  | date | time | dateTime | ip | ipv4 | ipv6 | bigInt | long | uuid
  deriving DecidableEq, Repr

def Scalar.ofName (n : Name) : Option Scalar :=
  if n = "Date".toList then some .date
  else if n = "Time".toList then some .time
  else if n = "DateTime".toList then some .dateTime
  else if n = "IP".toList then some .ip
  else if n = "IPv4".toList then some .ipv4
  else if n = "IPv6".toList then some .ipv6
  else if n = "BigInt".toList then some .bigInt
  else if n = "Long".toList then some .long
  else if n = "UUID".toList then some .uuid
  else none

/-- two decimal digits → their value -/
def twoDigits (a b : Char) : Option Nat :=
  if isDigit a && isDigit b then some (10 * digitVal a + digitVal b) else none

/-- RFC 3339 §5.7 -/
def leapYear (y : Nat) : Bool := (y % 4 == 0 && y % 100 != 0) || y % 400 == 0

def monthLength (y m : Nat) : Nat :=
  if m = 2 then (if leapYear y then 29 else 28) else [31, 28, 31, 30, 31, 30, 31, 31, 30, 31, 30, 31].getD (m - 1) 0

/-- RFC 3339 `full-date` -/
def fullDate (t : List Char) : Bool :=
  match t with
  | [y1, y2, y3, y4, s1, m1, m2, s2, d1, d2] =>
    s1 == '-' && s2 == '-' &&
    (match twoDigits y1 y2, twoDigits y3 y4, twoDigits m1 m2, twoDigits d1 d2 with
     | some yh, some yl, some m, some d =>
       decide (1 ≤ m) && decide (m ≤ 12) && decide (1 ≤ d) && decide (d ≤ monthLength (100 * yh + yl) m)
     | _, _, _, _ => false)
  | _ => false

/-- RFC 3339 `time-offset`: "Z" or ("+" / "-") HH ":" MM -/
def timeOffset (t : List Char) : Bool :=
  match t with
  | [z] => z == 'Z'
  | [sg, h1, h2, c, m1, m2] =>
    (sg == '+' || sg == '-') && c == ':' &&
    (match twoDigits h1 h2, twoDigits m1 m2 with
     | some h, some m => decide (h ≤ 23) && decide (m ≤ 59)
     | _, _ => false)
  | _ => false

/-- `1*DIGIT time-offset` (`seen`: at least one digit consumed) -/
def fracThenOffset : List Char → Bool → Bool
  | [], _ => false
  | c :: rest, seen => if isDigit c then fracThenOffset rest true else seen && timeOffset (c :: rest)

/-- RFC 3339 `full-time` (second 60 only as a leap second: allowed) -/
def fullTime (t : List Char) : Bool :=
  match t with
  | h1 :: h2 :: c1 :: m1 :: m2 :: c2 :: s1 :: s2 :: rest =>
    c1 == ':' && c2 == ':' &&
    (match twoDigits h1 h2, twoDigits m1 m2, twoDigits s1 s2 with
     | some h, some m, some s => decide (h ≤ 23) && decide (m ≤ 59) && decide (s ≤ 60)
     | _, _, _ => false) &&
    (match rest with
     | c :: more => if c = '.' then fracThenOffset more false else timeOffset (c :: more)
     | [] => false)
  | _ => false

/-- RFC 3339 `date-time` -/
def dateTime (t : List Char) : Bool :=
  fullDate (t.take 10) && (match t.drop 10 with | sep :: rest => sep == 'T' && fullTime rest | [] => false)

def ipv4Address (t : List Char) : Bool := (ipv4Value t).isSome
def ipv6Address (t : List Char) : Bool := (ipv6Value t).isSome
def uuidString (t : List Char) : Bool := (uuidValue t).isSome

/-- 64-bit signed -/
def int64 (i : Int) : Bool := decide (-9223372036854775808 ≤ i) && decide (i ≤ 9223372036854775807)

/-- is `v` an acceptable literal for the scalar? -/
def acceptable (s : Scalar) (v : ValueNode) : Bool :=
  match s, v with
  | .long, .int t => isIntLiteral t && int64 (intValue t)
  | .bigInt, .int t => isIntLiteral t
  | .date, .str t => fullDate t
  | .time, .str t => fullTime t
  | .dateTime, .str t => dateTime t
  | .ipv4, .str t => ipv4Address t
  | .ipv6, .str t => ipv6Address t
  | .ip, .str t => ipv4Address t || ipv6Address t
  | .uuid, .str t => uuidString t
  | _, _ => false

/-- a strategy is *safe* for a scalar when every node it can yield is acceptable -/
def SafeFor (s : Scalar) (g : ScalarGen) : Prop := ∀ d v, render g d = some v → acceptable s v = true

/-- decision procedure for "`st.integers(lo, hi)` is safe for `Long`": the range is empty or lies inside 64 bits -/
def intsWithinLong (lo hi : Option Int) : Bool :=
  match lo, hi with
  | some l, some h => decide (h < l) || (decide (-9223372036854775808 ≤ l) && decide (h ≤ 9223372036854775807))
  | _, _ => false

/-- a draw of `st.integers(lo, hi)` outside 64 bits when `intsWithinLong lo hi = false` -/
def longWitness (lo hi : Option Int) : Int :=
  match lo, hi with
  | some l, some h => if l < -9223372036854775808 then l else h
  | some l, none => if l < -9223372036854775808 then l else max l 9223372036854775808
  | none, some h => if 9223372036854775807 < h then h else min h (-9223372036854775809)
  | none, none => 9223372036854775808

/-- hypothesis-graphql's contract for a leaf of a custom scalar type (`primitives.custom(strategy, nullable, default)`
    with `nullable := declared nullable ∧ allow_null`): the leaf is a value of the strategy passed for that scalar, or
    `null` when permitted, or the default value written in the schema -/
def LeafContract (leaf : ScalarGen → Bool → Option ValueNode → ValueNode → Prop) : Prop :=
  ∀ g nullable dflt v, leaf g nullable dflt v →
    (∃ d, render g d = some v) ∨ (nullable = true ∧ v = .null) ∨ dflt = some v

end SV.Spec.C20
