/-
  SV.Spec.JsonSchema — reference semantics of the JSON-Schema keyword fragment schemathesis handles, over raw
  `SV.Json` schemas (schemas are JSON objects, exactly as the Python code sees them). Core Lean only.

  `validF fuel env S v`  : instance `v` is valid for schema `S` (fuel bounds schema nesting + `$ref` chains).
  Keywords: type (name or list), enum, const, minimum/maximum, exclusiveMinimum/exclusiveMaximum (draft-4 boolean
  form and numeric form, told apart by the value's JSON type), multipleOf, minLength/maxLength, pattern, format,
  items (single schema), minItems/maxItems/uniqueItems, properties, required, additionalProperties (bool|schema),
  patternProperties, minProperties/maxProperties, allOf/anyOf/oneOf/not, local `$ref` ("#/…" JSON pointers into
  `env.root`), boolean schemas; OpenAPI: nullable (`env.nullableName`), readOnly (request side), writeOnly
  (response side). Unknown keywords are ignored, as in JSON Schema.

  Regular expressions and formats are *oracles* (`env.re pattern string`, `env.fmt format value`): theorems hold
  for every oracle, drivers fill them with truth tables computed by the reference implementation.
  Numbers are exact decimals `num m e = m · 10^(-e)`, normalised so that integers have `e = 0`.
-/
import SV.Json

namespace SV.Spec.JsonSchema
open SV

/-! ### JSON equality up to object key order (enum / const / uniqueItems) -/
mutual
  def eqv : Json → Json → Bool
    | .null, .null => true
    | .bool a, .bool b => a == b
    | .num m e, .num m' e' => m == m' && e == e'
    | .str a, .str b => a == b
    | .arr xs, .arr ys => eqvList xs ys
    | .obj xs, .obj ys => xs.length == ys.length && eqvKvs xs ys
    | _, _ => false
  def eqvList : List Json → List Json → Bool
    | [], [] => true
    | x :: xs, y :: ys => eqv x y && eqvList xs ys
    | _, _ => false
  /-- every binding of the left object has an equivalent binding on the right -/
  def eqvKvs : List (String × Json) → List (String × Json) → Bool
    | [], _ => true
    | (k, x) :: xs, ys =>
      (match Json.lookup k ys with
       | some y => eqv x y
       | none => false) && eqvKvs xs ys
end

/-! ### decimals -/
def pow10 (n : Nat) : Int := (10 : Int) ^ n
/-- `m₁·10^-e₁ ≤ m₂·10^-e₂` -/
def numLe (m1 : Int) (e1 : Nat) (m2 : Int) (e2 : Nat) : Bool := m1 * pow10 e2 ≤ m2 * pow10 e1
def numLt (m1 : Int) (e1 : Nat) (m2 : Int) (e2 : Nat) : Bool := m1 * pow10 e2 < m2 * pow10 e1
/-- `a / b` is an integer (`b ≠ 0`) -/
def numMultipleOf (m1 : Int) (e1 : Nat) (m2 : Int) (e2 : Nat) : Bool :=
  m2 != 0 && (m1 * pow10 e2) % (m2 * pow10 e1) == 0

inductive Oas where
  | none | request | response
  deriving DecidableEq, Repr

structure Env where
  oas : Oas := .none
  nullableName : String := "nullable"
  root : Json := .null
  re : String → String → Bool := fun _ _ => true
  fmt : String → Json → Bool := fun _ _ => true

/-! ### `$ref` resolution (RFC 6901 pointers in a URI fragment, no percent-decoding) -/
def unescapeTok : List Char → List Char
  | '~' :: '1' :: rest => '/' :: unescapeTok rest
  | '~' :: '0' :: rest => '~' :: unescapeTok rest
  | c :: rest => c :: unescapeTok rest
  | [] => []

def splitSlash : List Char → List (List Char)
  | [] => [[]]
  | c :: cs =>
    if c == '/' then [] :: splitSlash cs
    else match splitSlash cs with
      | [] => [[c]]
      | p :: ps => (c :: p) :: ps

def natOfDigits? (cs : List Char) : Option Nat :=
  if cs.isEmpty || !cs.all Char.isDigit then none
  else if cs.length > 1 && cs.head? == some '0' then none
  else some (cs.foldl (fun acc c => acc * 10 + (c.toNat - '0'.toNat)) 0)

def stepPointer (j : Json) (tok : List Char) : Option Json :=
  match j with
  | .obj kvs => Json.lookup (String.ofList tok) kvs
  | .arr xs => match natOfDigits? tok with
    | some i => xs[i]?
    | none => none
  | _ => none

def walk : Json → List (List Char) → Option Json
  | j, [] => some j
  | j, t :: ts => match stepPointer j (unescapeTok t) with
    | some j' => walk j' ts
    | none => none

def resolveRef (root : Json) (ref : String) : Option Json :=
  match ref.toList with
  | ['#'] => some root
  | '#' :: '/' :: rest => walk root (splitSlash rest)
  | _ => none

/-! ### per-keyword checks; `rec` is the validity of a sub-schema (one unit of fuel lower) -/

def typeNameOk (t : String) (v : Json) : Bool :=
  match v with
  | .null => t == "null"
  | .bool _ => t == "boolean"
  | .num _ e => t == "number" || (t == "integer" && e == 0)
  | .str _ => t == "string"
  | .arr _ => t == "array"
  | .obj _ => t == "object"

def typeOk (kvs : List (String × Json)) (v : Json) : Bool :=
  match Json.lookup "type" kvs with
  | some (.str t) => typeNameOk t v
  | some (.arr ts) => ts.any fun t => match t with | .str t => typeNameOk t v | _ => false
  | _ => true

def enumOk (kvs : List (String × Json)) (v : Json) : Bool :=
  match Json.lookup "enum" kvs with
  | some (.arr xs) => xs.any (eqv · v)
  | _ => true

def constOk (kvs : List (String × Json)) (v : Json) : Bool :=
  match Json.lookup "const" kvs with
  | some c => eqv c v
  | none => true

def minimumOk (kvs : List (String × Json)) (m : Int) (e : Nat) : Bool :=
  (match Json.lookup "minimum" kvs with
   | some (.num b be) =>
     (match Json.lookup "exclusiveMinimum" kvs with
      | some (.bool true) => numLt b be m e
      | _ => numLe b be m e)
   | _ => true) &&
  (match Json.lookup "exclusiveMinimum" kvs with
   | some (.num b be) => numLt b be m e
   | _ => true)

def maximumOk (kvs : List (String × Json)) (m : Int) (e : Nat) : Bool :=
  (match Json.lookup "maximum" kvs with
   | some (.num b be) =>
     (match Json.lookup "exclusiveMaximum" kvs with
      | some (.bool true) => numLt m e b be
      | _ => numLe m e b be)
   | _ => true) &&
  (match Json.lookup "exclusiveMaximum" kvs with
   | some (.num b be) => numLt m e b be
   | _ => true)

def multipleOfOk (kvs : List (String × Json)) (m : Int) (e : Nat) : Bool :=
  match Json.lookup "multipleOf" kvs with
  | some (.num b be) => numMultipleOf m e b be
  | _ => true

def numberOk (kvs : List (String × Json)) (v : Json) : Bool :=
  match v with
  | .num m e => minimumOk kvs m e && maximumOk kvs m e && multipleOfOk kvs m e
  | _ => true

def natKw (kvs : List (String × Json)) (k : String) : Option Nat :=
  match Json.lookup k kvs with
  | some (.num m 0) => if m ≥ 0 then some m.toNat else none
  | _ => none

def lenBoundsOk (kvs : List (String × Json)) (lo hi : String) (n : Nat) : Bool :=
  (match natKw kvs lo with | some b => b ≤ n | none => true) &&
  (match natKw kvs hi with | some b => n ≤ b | none => true)

def stringOk (env : Env) (kvs : List (String × Json)) (v : Json) : Bool :=
  match v with
  | .str s =>
    lenBoundsOk kvs "minLength" "maxLength" s.length &&
    (match Json.lookup "pattern" kvs with
     | some (.str p) => env.re p s
     | _ => true)
  | _ => true

def formatOk (env : Env) (kvs : List (String × Json)) (v : Json) : Bool :=
  match Json.lookup "format" kvs with
  | some (.str f) => env.fmt f v
  | _ => true

def allDistinct : List Json → Bool
  | [] => true
  | x :: xs => !(xs.any (eqv x ·)) && allDistinct xs

def arrayOk (rec : Json → Json → Bool) (kvs : List (String × Json)) (v : Json) : Bool :=
  match v with
  | .arr xs =>
    lenBoundsOk kvs "minItems" "maxItems" xs.length &&
    (match Json.lookup "uniqueItems" kvs with
     | some (.bool true) => allDistinct xs
     | _ => true) &&
    (match Json.lookup "items" kvs with
     | some (.arr _) => true          -- tuple form: outside the fragment
     | some s => xs.all (rec s ·)
     | none => true)
  | _ => true

def flagTrue (s : Json) (k : String) : Bool :=
  match s with
  | .obj kvs => (match Json.lookup k kvs with | some (.bool true) => true | _ => false)
  | _ => false

/-- a property that must not be present on this side of the exchange (OpenAPI readOnly / writeOnly) -/
def forbiddenProp (env : Env) (s : Json) : Bool :=
  match env.oas with
  | .none => false
  | .request => flagTrue s "readOnly"
  | .response => flagTrue s "writeOnly" || flagTrue s "x-writeOnly"

def propsOf (kvs : List (String × Json)) : List (String × Json) :=
  match Json.lookup "properties" kvs with
  | some (.obj ps) => ps
  | _ => []

def patternPropsOf (kvs : List (String × Json)) : List (String × Json) :=
  match Json.lookup "patternProperties" kvs with
  | some (.obj ps) => ps
  | _ => []

def requiredOf (kvs : List (String × Json)) : List String :=
  match Json.lookup "required" kvs with
  | some (.arr xs) => xs.filterMap Json.str?
  | _ => []

def objectOk (env : Env) (rec : Json → Json → Bool) (kvs : List (String × Json)) (v : Json) : Bool :=
  match v with
  | .obj members =>
    let props := propsOf kvs
    let pprops := patternPropsOf kvs
    lenBoundsOk kvs "minProperties" "maxProperties" members.length &&
    -- required (a property forbidden on this side is not required on it)
    (requiredOf kvs).all (fun k =>
      (Json.lookup k members).isSome ||
      (match Json.lookup k props with | some ps => forbiddenProp env ps | none => false)) &&
    -- declared properties
    members.all (fun (k, x) =>
      match Json.lookup k props with
      | some ps => !(forbiddenProp env ps) && rec ps x
      | none => true) &&
    -- patternProperties
    members.all (fun (k, x) => pprops.all fun (p, ps) => !(env.re p k) || rec ps x) &&
    -- additionalProperties
    (match Json.lookup "additionalProperties" kvs with
     | some ap =>
       members.all fun (k, x) =>
         (Json.lookup k props).isSome || pprops.any (fun (p, _) => env.re p k) || rec ap x
     | none => true)
  | _ => true

def countTrue (rec : Json → Json → Bool) (v : Json) : List Json → Nat
  | [] => 0
  | s :: ss => (if rec s v then 1 else 0) + countTrue rec v ss

def combinatorsOk (rec : Json → Json → Bool) (kvs : List (String × Json)) (v : Json) : Bool :=
  (match Json.lookup "allOf" kvs with | some (.arr ss) => ss.all (rec · v) | _ => true) &&
  (match Json.lookup "anyOf" kvs with | some (.arr ss) => ss.any (rec · v) | _ => true) &&
  (match Json.lookup "oneOf" kvs with | some (.arr ss) => countTrue rec v ss == 1 | _ => true) &&
  (match Json.lookup "not" kvs with | some s => !(rec s v) | none => true)

/-- all keyword checks of one schema object (no `$ref`, no nullable) -/
def keywordsOk (env : Env) (rec : Json → Json → Bool) (kvs : List (String × Json)) (v : Json) : Bool :=
  typeOk kvs v && enumOk kvs v && constOk kvs v && numberOk kvs v && stringOk env kvs v && formatOk env kvs v &&
  arrayOk rec kvs v && objectOk env rec kvs v && combinatorsOk rec kvs v

def isNullable (env : Env) (kvs : List (String × Json)) : Bool :=
  env.oas != .none && (match Json.lookup env.nullableName kvs with | some (.bool true) => true | _ => false)

def validF : Nat → Env → Json → Json → Bool
  | 0, _, _, _ => true
  | fuel + 1, env, s, v =>
    match s with
    | .bool b => b
    | .obj kvs =>
      match Json.lookup "$ref" kvs with
      | some (.str r) =>
        (match resolveRef env.root r with
         | some t => validF fuel env t v
         | none => false)
      | _ =>
        if isNullable env kvs && v.isNull then true
        else keywordsOk env (validF fuel env) kvs v
    | _ => true

/-- nesting depth of a schema value (enough fuel for `$ref`-free schemas) -/
def depth : Json → Nat
  | .arr xs => 1 + depthList xs
  | .obj kvs => 1 + depthKvs kvs
  | _ => 1
where
  depthList : List Json → Nat
    | [] => 0
    | x :: xs => max (depth x) (depthList xs)
  depthKvs : List (String × Json) → Nat
    | [] => 0
    | (_, x) :: xs => max (depth x) (depthKvs xs)

end SV.Spec.JsonSchema
