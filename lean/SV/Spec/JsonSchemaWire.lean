/-
  Wire helpers for drivers that need the JSON-Schema reference semantics.
  env JSON: {"oas": "none"|"request"|"response", "nullable": "nullable"|"x-nullable", "root": <json>,
             "re": [[pattern, string, bool]…], "fmt": [[format, <json value>, bool]…]}
  Oracle tables default to `true` for entries that are not listed.
-/
import SV.Wire
import SV.Spec.JsonSchema

namespace SV.Spec.JsonSchema
open SV SV.Wire

def lookupRe (tbl : List (String × String × Bool)) (p s : String) : Bool :=
  match tbl.find? (fun (p', s', _) => p' == p && s' == s) with
  | some (_, _, b) => b
  | none => true

def lookupFmt (tbl : List (String × Json × Bool)) (f : String) (v : Json) : Bool :=
  match tbl.find? (fun (f', v', _) => f' == f && eqv v' v) with
  | some (_, _, b) => b
  | none => true

def decEnv (j : Json) : Except String Env := do
  let oas ← match j.getD "oas" (.str "none") with
    | .str "none" => pure Oas.none
    | .str "request" => pure Oas.request
    | .str "response" => pure Oas.response
    | _ => .error "bad oas"
  let nn ← asStr (j.getD "nullable" (.str "nullable"))
  let re ← (← asArr (j.getD "re" (.arr []))).mapM fun t => match t with
    | .arr [.str p, .str s, .bool b] => pure (p, s, b)
    | _ => .error "bad re entry"
  let fmt ← (← asArr (j.getD "fmt" (.arr []))).mapM fun t => match t with
    | .arr [.str f, v, .bool b] => pure (f, v, b)
    | _ => .error "bad fmt entry"
  return { oas := oas, nullableName := nn, root := j.getD "root" .null, re := lookupRe re, fmt := lookupFmt fmt }

/-- op "valid": {"env": …, "schema": …, "instance": …, "fuel": n?} → bool -/
def handleValid (a : Json) : Except String Json := do
  let env ← decEnv (a.getD "env" (.obj []))
  let fuel := match a.getD "fuel" .null with | .num m 0 => m.toNat | _ => 64
  return .bool (validF fuel env (a.getD "schema" .null) (a.getD "instance" .null))

end SV.Spec.JsonSchema
