/-
  SV.Spec.StatefulMachine — what the theorems about SV.Model.StatefulMachine are stated against:
  the reference automaton for the events the stateful thread puts, fresh scenario ids, "the failures the checks raise",
  and the assumptions about the environment (Hypothesis) under which the suite loop is shown to terminate.
  Core Lean only.
-/
import SV.Model.StatefulMachine

namespace SV.Spec.SM
open SV.Model.Engine (Status Ctl)
open SV.Model.Stateful (SEv)
open SV.Model.SM

/-- (open suite, open scenario) -/
abbrev WS := Option Nat × Option Nat

def wfStep : WS → SEv → Option WS
  | (none, none), .suiteStarted k => some (some k, none)
  | (some k, none), .suiteFinished k' _ => if k == k' then some (none, none) else none
  | (some k, none), .scenStarted i => some (some k, some i)
  | (some k, some i), .scenFinished i' _ => if i == i' then some (some k, none) else none
  | (some k, none), .nonFatal => some (some k, none)
  | (some k, none), .interrupted => some (some k, none)
  | _, _ => none

def wfRun : WS → List SEv → Option WS
  | s, [] => some s
  | s, e :: r => (wfStep s e).bind (wfRun · r)


/-- scenario ids are handed out in increasing order: every `scenStarted` in `evs` carries the next fresh id -/
def idsFrom : Nat → List SEv → Option Nat
  | n, [] => some n
  | n, .scenStarted i :: r => if i == n then idsFrom (n + 1) r else none
  | n, _ :: r => idsFrom n r


/-- the failures the configured checks raise on this response, up to the first check that crashes -/
def failsOf : List CheckOut → List FKey
  | [] => []
  | .pass :: cs => failsOf cs
  | .fail fs :: cs => fs ++ failsOf cs
  | .crash :: _ => []


def allFails : List CheckOut → List FKey
  | [] => []
  | .fail fs :: cs => fs ++ allFails cs
  | _ :: cs => allFails cs

def stepKeys (s : Step) : List FKey := match s.call with | .responds cs => allFails cs | _ => []
def scenKeys (sc : Scenario) : List FKey := sc.steps.flatMap stepKeys
def runKeys (r : Run) : List FKey := r.scens.flatMap scenKeys


/-- what the environment may be assumed to do in one iteration: the FailureGroup Hypothesis re-raises out of `run` was
    raised by `validate_response` during this run, so one of its members was marked as seen in this suite -/
def RunSane (k : Nat) (m : MSt) (r : Run) : Prop :=
  match r.hyp with
  | .failureGroup marked =>
    ∃ f, f ∈ marked ∧ f ∈ (runMachine (put (requestStop m r.stopBeforeSuite) [.suiteStarted k]) r.scens).1.seenSuite
  | _ => True


/-- the environment is sane in every iteration the loop actually performs -/
def SaneAll : Nat → MSt → List Run → Prop
  | _, _, [] => True
  | k, m, r :: rest =>
    RunSane k m r ∧ ((suiteStep .repaired k m r).2 = true → SaneAll (k + 1) (suiteStep .repaired k m r).1 rest)


/-- an iteration in which one scenario hits an error that does not repeat when Hypothesis replays it -/
def flakyErrorRun : Run := { scens := [{ steps := [⟨1, false, .raises⟩] }, { steps := [⟨1, false, .responds []⟩] }], hyp := .flaky }

def Quiet (m : MSt) : Prop := m.ctl.stop = false ∧ m.ctl.limit = false ∧ m.outcomes = [] ∧ m.seenSuite = []


/-- number of scenarios reported as failed -/
def failedScenarios : List SEv → Nat
  | [] => 0
  | .scenFinished _ .failure :: r => failedScenarios r + 1
  | _ :: r => failedScenarios r

/-- no scenario of the script has a `teardown` whose metric aggregation raises -/
def NoTeardownFault (runs : List Run) : Prop := ∀ r, r ∈ runs → ∀ sc, sc ∈ r.scens → sc.teardownFails = false

end SV.Spec.SM
