/-
  SV.Wire — line protocol shared by all drivers (Mathlib-free; imports Lean.Data.Json only).
  One request per line: {"op": <string>, "a": <json>}.  One answer per line: {"ok": <json>} | {"err": <string>}.
  Objects lose key order on the way in (Lean.Json keeps a sorted tree); anything ordered is sent as an array.
-/
import Lean.Data.Json
import SV.Json

namespace SV.Wire
open Lean (JsonNumber)

def normNum (m : Int) : Nat → Int × Nat
  | 0 => (m, 0)
  | e + 1 => if m % 10 == 0 then normNum (m / 10) e else (m, e + 1)

partial def ofLean : Lean.Json → SV.Json
  | .null => .null
  | .bool b => .bool b
  | .num n => let (m, e) := normNum n.mantissa n.exponent; .num m e
  | .str s => .str s
  | .arr xs => .arr (xs.toList.map ofLean)
  | .obj kvs => .obj (kvs.toList.map fun (k, v) => (k, ofLean v))

partial def toLean : SV.Json → Lean.Json
  | .null => .null
  | .bool b => .bool b
  | .num m e => .num ⟨m, e⟩
  | .str s => .str s
  | .arr xs => .arr (xs.map toLean).toArray
  | .obj kvs => Lean.Json.mkObj (kvs.map fun (k, v) => (k, toLean v))

abbrev Handler := String → SV.Json → Except String SV.Json

def answer (h : Handler) (line : String) : String :=
  match Lean.Json.parse line with
  | .error e => (Lean.Json.mkObj [("err", .str s!"parse: {e}")]).compress
  | .ok j =>
    let req := ofLean j
    match req.get? "op" with
    | some (.str op) =>
      match h op (req.getD "a" .null) with
      | .ok r => (Lean.Json.mkObj [("ok", toLean r)]).compress
      | .error e => (Lean.Json.mkObj [("err", .str e)]).compress
    | _ => (Lean.Json.mkObj [("err", .str "no op")]).compress

partial def loop (h : Handler) (stdin stdout : IO.FS.Stream) : IO Unit := do
  let line ← stdin.getLine
  if line.isEmpty then return ()
  let t := line.trimAscii.toString
  if t.isEmpty then loop h stdin stdout else
  stdout.putStrLn (answer h t)
  stdout.flush
  loop h stdin stdout

def run (h : Handler) : IO Unit := do
  loop h (← IO.getStdin) (← IO.getStdout)

end SV.Wire

/-! ### decoding helpers for drivers -/
namespace SV.Wire
open SV

def field (j : Json) (k : String) : Except String Json :=
  match j.get? k with | some v => .ok v | none => .error s!"missing field {k}"
def asStr : Json → Except String String | .str s => .ok s | _ => .error "expected string"
def asChars (j : Json) : Except String (List Char) := do return (← asStr j).toList
def asNat : Json → Except String Nat
  | .num m 0 => if m ≥ 0 then .ok m.toNat else .error "expected nat"
  | _ => .error "expected nat"
def asInt : Json → Except String Int | .num m 0 => .ok m | _ => .error "expected int"
def asBool : Json → Except String Bool | .bool b => .ok b | _ => .error "expected bool"
def asArr : Json → Except String (List Json) | .arr xs => .ok xs | _ => .error "expected array"
def asOpt (f : Json → Except String α) : Json → Except String (Option α)
  | .null => .ok none
  | j => do return some (← f j)
def asList (f : Json → Except String α) (j : Json) : Except String (List α) := do (← asArr j).mapM f
/-- [[k, v], …] -/
def asPairs (fk : Json → Except String α) (fv : Json → Except String β) (j : Json) : Except String (List (α × β)) := do
  (← asArr j).mapM fun p => match p with
    | .arr [k, v] => do return (← fk k, ← fv v)
    | _ => .error "expected pair"
def optField (j : Json) (k : String) : Json := j.getD k .null
def jstr (cs : List Char) : Json := .str (String.ofList cs)
def jnat (n : Nat) : Json := .num n 0
def jobj (kvs : List (String × Json)) : Json := .obj kvs

end SV.Wire
