#!/usr/bin/env python3
"""Run /repo's pinned baseline suite (guard OFF) and compare with /root/.vp/BASELINE.json stable_pass.
usage: tools/baseline.py [repo_dir]   -> exit 0 iff every stable_pass test passes."""
import json, os, subprocess, sys, tempfile, xml.etree.ElementTree as ET
repo = sys.argv[1] if len(sys.argv) > 1 else "/repo"
os.environ["PYTHONPATH"] = os.path.join(repo, "src")
base = json.load(open("/root/.vp/BASELINE.json"))
out = tempfile.mktemp(suffix=".xml", dir="/var/tmp")
env = {k: v for k, v in os.environ.items() if not k.startswith("SCHEMATHESIS_VERIF")}
cmd = ["/venv/bin/python", "-m", "pytest", "-ra", "-q", "-p", "no:cacheprovider", "--timeout=900",
       "--continue-on-collection-errors", f"--junitxml={out}"] + sys.argv[2:]
r = subprocess.run(cmd, cwd=repo, env=env, stdout=subprocess.PIPE, stderr=subprocess.STDOUT, text=True)
passed = set()
for tc in ET.parse(out).getroot().iter("testcase"):
    if not any(ch.tag in ("failure", "error", "skipped") for ch in tc):
        passed.add(f"{tc.get('classname')}::{tc.get('name')}")
os.unlink(out)
missing = [t for t in base["stable_pass"] if t not in passed]
print(f"passed={len(passed)} stable={len(base['stable_pass'])} missing={len(missing)}")
for m in missing[:50]:
    print("MISSING", m)
if missing:
    print(r.stdout[-3000:])
sys.exit(1 if missing else 0)
