#!/usr/bin/env python3
"""Confirm a seeded change produced by an independent agent and run our checks against it.

usage: tools/confirm_mutation.py <PID> <k> [--checks C05,C11] [--skip-baseline]
  input : /tmp/mut-out/<PID>/<k>/{patch.diff, demo.py|test_demo.py, meta.json}
  output: /verif/seeded/<PID>-<k>/{patch.diff, demo.py, meta.json}   (only if confirmed)

Steps (all in a scratch worktree /tmp/confirm-<PID>-<k> of /repo HEAD, removed afterwards):
  1. demo passes on the unmodified tree;  2. patch applies;  3. demo fails with the patch;
  4. the pinned baseline suite still passes with the patch (tools/baseline.py, -n 8);
  5. each listed check is run against the patched worktree (VERIF_REPO + PYTHONPATH) and its verdict recorded.
"""
from __future__ import annotations

import json
import os
import shutil
import subprocess
import sys
from pathlib import Path

ROOT = Path(__file__).resolve().parent.parent


def sh(cmd, **kw):
    return subprocess.run(cmd, stdout=subprocess.PIPE, stderr=subprocess.STDOUT, text=True, **kw)


def main():
    pid, k = sys.argv[1], sys.argv[2]
    checks = [pid]
    skip_baseline = "--skip-baseline" in sys.argv
    for i, a in enumerate(sys.argv):
        if a == "--checks":
            checks = sys.argv[i + 1].split(",")
    src = Path(f"/tmp/mut-out/{pid}/{k}")
    demo = next((src / n for n in ("demo.py", "test_demo.py") if (src / n).exists()), None)
    patch = src / "patch.diff"
    if demo is None or not patch.exists():
        print("missing demo or patch in", src)
        return 2
    wt = Path(f"/tmp/confirm-{pid}-{k}")
    sh(["git", "-C", "/repo", "worktree", "remove", "--force", str(wt)])
    r = sh(["git", "-C", "/repo", "worktree", "add", "--detach", str(wt), "HEAD"])
    if r.returncode:
        print(r.stdout)
        return 2
    env = dict(os.environ, PYTHONPATH=str(wt / "src"), PYTHONDONTWRITEBYTECODE="1")
    env.pop("SCHEMATHESIS_VERIF", None)
    result = {"property": pid, "k": k}
    try:
        # the demos were written against /tmp/mut-<PID>; they run with cwd = worktree and PYTHONPATH = worktree/src
        def run_demo():
            if demo.name.startswith("test_"):
                return sh(["/venv/bin/python", "-m", "pytest", "-q", "-p", "no:cacheprovider", str(demo)], cwd=wt, env=env, timeout=900)
            return sh(["/venv/bin/python", str(demo)], cwd=wt, env=env, timeout=900)
        r0 = run_demo()
        result["demo_clean_rc"] = r0.returncode
        ra = sh(["git", "apply", str(patch)], cwd=wt)
        result["patch_applies"] = ra.returncode == 0
        if ra.returncode:
            print("patch does not apply:", ra.stdout[-500:])
        r1 = run_demo() if ra.returncode == 0 else None
        result["demo_patched_rc"] = None if r1 is None else r1.returncode
        result["demo_patched_tail"] = None if r1 is None else r1.stdout[-600:]
        confirmed = r0.returncode == 0 and ra.returncode == 0 and r1 is not None and r1.returncode != 0
        if confirmed and not skip_baseline:
            rb = sh(["python3", str(ROOT / "tools" / "baseline.py"), str(wt), "-n", "8"], timeout=3600)
            first = rb.stdout.splitlines()[0] if rb.stdout else ""
            missing = [ln for ln in rb.stdout.splitlines() if ln.startswith("MISSING")]
            ok = all("test_convert_workers[auto-8]" in m for m in missing)
            if not ok:
                # under load a few stable tests are flaky (server start-up, time limits): re-run exactly those, alone
                ids = []
                for m in missing:
                    if "test_convert_workers[auto-8]" in m:
                        continue
                    cls, name = m.replace("MISSING ", "").split("::", 1)
                    ids.append(cls.replace(".", "/") + ".py::" + name)
                rr = sh(["/venv/bin/python", "-m", "pytest", "-q", "-p", "no:cacheprovider", "--timeout=900", *ids], cwd=wt, env=env,
                        timeout=3600)
                result["baseline_rerun"] = rr.stdout[-300:]
                ok = rr.returncode == 0
            result["baseline"] = first
            result["baseline_ok"] = ok
            result["baseline_missing"] = missing[:10]
            confirmed = confirmed and ok
        result["confirmed"] = confirmed
        if confirmed:
            verdicts = {}
            for c in checks:
                cenv = dict(os.environ, VERIF_REPO=str(wt), PYTHONPATH=str(wt / "src"))
                rc = sh(["./check", c], cwd=ROOT, env=cenv, timeout=3600)
                lines = [ln for ln in rc.stdout.splitlines() if ln.startswith(("VIOLATION", "KNOWN-FINDING", "  ->"))]
                # the replay files belong to this mutation: keep a copy of their signatures only
                verdicts[c] = {"rc": rc.returncode, "lines": [ln[:300] for ln in lines][:12], "tail": rc.stdout[-400:]}
            result["checks"] = verdicts
            result["detected_by"] = [c for c, v in verdicts.items() if v["rc"] == 1]
    finally:
        sh(["git", "-C", "/repo", "worktree", "remove", "--force", str(wt)])
    print(json.dumps(result, indent=1)[:4000])
    if result.get("confirmed"):
        dst = ROOT / "seeded" / f"{pid}-{k}"
        dst.mkdir(parents=True, exist_ok=True)
        shutil.copy(patch, dst / "patch.diff")
        shutil.copy(demo, dst / demo.name)
        meta = json.loads((src / "meta.json").read_text()) if (src / "meta.json").exists() else {}
        meta.update({"breaks_property": pid, "confirmation": {
            "demo_passes_on_clean_tree": result["demo_clean_rc"] == 0, "demo_fails_with_patch": True,
            "demo_failure_tail": result["demo_patched_tail"], "baseline": result.get("baseline"),
            "what_was_run": f"tools/confirm_mutation.py {pid} {k} (scratch worktree of /repo HEAD; demo before/after patch; "
                            f"tools/baseline.py -n 8; ./check {' '.join(checks)} with VERIF_REPO pointing at the patched worktree)"},
            "checks": result.get("checks"), "detected_by": result.get("detected_by")})
        (dst / "meta.json").write_text(json.dumps(meta, indent=1))
    return 0


if __name__ == "__main__":
    sys.exit(main())
