#!/bin/sh
# usage: tools/confirm_queue.sh "C18 1" "C18 2" ...   (runs confirmations one after another, logs to /var/tmp/confirm_<pid>_<k>.log)
cd "$(dirname "$0")/.." || exit 2
for item in "$@"; do
  set -- $item
  python3 tools/confirm_mutation.py "$@" > "/var/tmp/confirm_$1_$2.log" 2>&1
done
