#!/usr/bin/env python3
"""Regenerates MANIFEST.json from the table below + /verif/properties.jsonl (ids only)."""
import json, pathlib
ROOT = pathlib.Path(__file__).resolve().parent.parent
BASE = json.load(open("/root/.vp/BASELINE.json"))["cmd"].replace("--junitxml=<file>", "--junitxml=/var/tmp/verif-baseline.junit.xml")

COMMON_NOTE = ("Trusted: Lean 4.33 kernel (axioms audited per theorem: subset of propext, Classical.choice, Quot.sound; no sorry/"
               "native_decide/bv_decide/own axioms - grep'd on every run); the hand-written Lean model, tied to /repo on every run by "
               "the correspondence harness (harness/corr) which runs model and real code on the same inputs; harness canonicalisation "
               "and lean/SV/Wire.lean. ")

CLAIMS = {
 "C18": dict(
  text="Proof (Lean 4): `_is_prefix_operation` = reference same-resource relation (isPrefixOp_spec); repaired use_after_free "
       "reports iff a related DELETE answered 2xx addresses the same resource and the answer is neither 404 nor 5xx "
       "(uaf_exact_partial, uaf_never_on_404_5xx); ensure_resource_availability reports only under the stated conditions "
       "(era_sound); the pinned snapshot's variant is refuted by two kernel-checked witnesses. Partial: the theorems are relative "
       "to find_related yielding the other requests of the scenario tree, which is validated (not proved) on every generated tree "
       "by the correspondence run and an independent oracle. Tie to code: ~18k real ScenarioRecorder trees per quick run judged by "
       "the real checks vs the model (exhaustive 3-node scope + random).",
  note="Modelled, not verified: checks.py use_after_free/ensure_resource_availability/_is_prefix_operation/ResourcePath, "
       "recorder.find_parent/find_related/find_response, overrides.get_component_diff, transforms.diff. 'Same resource' adopts the "
       "code base's plural-s tolerance. Path-parameter values compared through str().",
  technique="Lean 4 theorems over an executable model + differential correspondence against the real checks",
  design="4/C18"),
}

props = [json.loads(l)["id"] for l in open(ROOT / "properties.jsonl")]
checks, na = [], []
for pid in props:
    c = CLAIMS.get(pid)
    if c is None:
        na.append({"property_id": pid, "reason": "not claimed yet: the Lean model and correspondence check for this property "
                                                 "are not built at this commit (planned in DESIGN.md section 4)"})
        continue
    checks.append({
        "property_id": pid,
        "quick_cmd": f"./check {pid} --tier quick",
        "thorough_cmd": f"./check {pid} --tier thorough",
        "evidence_file": f"evidence/{pid}.json",
        "replay_cmd_template": f"./check {pid} --replay {{path}}",
        "engine": "lean4-model+correspondence",
        "level_claimed": {"category": "proof", "text": c["text"], "design_ref": c["design"]},
        "level_note": COMMON_NOTE + c["note"],
        "technique": c["technique"],
    })
m = {
 "version": 1,
 "setup_cmd": "cd lean && lake build",
 "hooks": {"guard": "SCHEMATHESIS_VERIF", "enable": "SCHEMATHESIS_VERIF=1 in the environment of the check (set by ./check); "
           "no rebuild needed: /venv imports /repo/src in place", "baseline_off_cmd": BASE, "source_commits": [], "add_only": True},
 "engines": [{"name": "lean4-model+correspondence", "path": "lean/ + harness/", "serves_properties": [c["property_id"] for c in checks],
              "kind_free_text": "Lean 4 models/specs/theorems (lake project lean/), Python correspondence + replay harness"}],
 "checks": checks,
 "not_applicable": na,
 "notes": "Entry point ./check <ID> [--tier quick|thorough] [--replay FILE]; seeds via VERIF_SEED. Exit 2 = infrastructure error.",
}
json.dump(m, open(ROOT / "MANIFEST.json", "w"), indent=1, ensure_ascii=False)
print("claimed:", [c["property_id"] for c in checks])
