#!/usr/bin/env python3
"""Regenerates MANIFEST.json from the table below + /verif/properties.jsonl (ids only)."""
import json, pathlib
ROOT = pathlib.Path(__file__).resolve().parent.parent
BASE = json.load(open("/root/.vp/BASELINE.json"))["cmd"].replace("--junitxml=<file>", "--junitxml=/var/tmp/verif-baseline.junit.xml")

COMMON_NOTE = ("Trusted: Lean 4.33 kernel (axioms audited per theorem: subset of propext, Classical.choice, Quot.sound; no sorry/"
               "native_decide/bv_decide/own axioms - grep'd on every run); the hand-written Lean model, tied to /repo on every run by "
               "the correspondence harness (harness/corr) which runs model and real code on the same inputs; harness canonicalisation "
               "and lean/SV/Wire.lean. ")

READY = set((ROOT / "claims" / "READY").read_text().split()) if (ROOT / "claims" / "READY").exists() else set()
CLAIMS = {p.stem: json.load(open(p)) for p in sorted((ROOT / "claims").glob("C*.json")) if p.stem in READY}
HOOK_COMMITS = json.load(open(ROOT / "claims" / "hook_commits.json")) if (ROOT / "claims" / "hook_commits.json").exists() else []

props = [json.loads(l)["id"] for l in open(ROOT / "properties.jsonl")]
checks, na = [], []
for pid in props:
    c = CLAIMS.get(pid)
    if c is None:
        na.append({"property_id": pid, "reason": "not claimed at this commit: the Lean model and correspondence check for this "
                                                 "property are still being built/reviewed (plan: DESIGN.md section 4); it is "
                                                 "applicable to the technique and will be claimed once its check is accepted"})
        continue
    checks.append({
        "property_id": pid,
        "quick_cmd": f"./check {pid} --tier quick",
        "thorough_cmd": f"./check {pid} --tier thorough",
        "evidence_file": f"evidence/{pid}.json",
        "replay_cmd_template": f"./check {pid} --replay {{path}}",
        "engine": "lean4-model+correspondence",
        "level_claimed": {"category": "proof", "text": c["text"], "design_ref": c["design"]},
        "level_note": COMMON_NOTE + c["note"],
        "technique": c["technique"],
    })
m = {
 "version": 1,
 "setup_cmd": "cd lean && lake build",
 "hooks": {"guard": "SCHEMATHESIS_VERIF", "enable": "SCHEMATHESIS_VERIF=1 in the environment of the check (set by ./check); "
           "no rebuild needed: /venv imports /repo/src in place", "baseline_off_cmd": BASE, "source_commits": HOOK_COMMITS, "add_only": True},
 "engines": [{"name": "lean4-model+correspondence", "path": "lean/ + harness/", "serves_properties": [c["property_id"] for c in checks],
              "kind_free_text": "Lean 4 models/specs/theorems (lake project lean/), Python correspondence + replay harness"}],
 "checks": checks,
 "not_applicable": na,
 "notes": "Entry point ./check <ID> [--tier quick|thorough] [--replay FILE]; seeds via VERIF_SEED. Exit 2 = infrastructure error.",
}
import os, tempfile
def atomic(path, obj):
    fd, tmp = tempfile.mkstemp(dir=ROOT)
    with os.fdopen(fd, "w") as f:
        json.dump(obj, f, indent=1, ensure_ascii=False)
    os.replace(tmp, path)
atomic(ROOT / "MANIFEST.json", m)
findings = []
for p in sorted((ROOT / "findings").glob("C*.json")):
    findings += json.load(open(p))
atomic(ROOT / "known_findings.json", {"_comment": "Merged from findings/C*.json by tools/gen_manifest.py. Genuine defects of /repo found by the "
    "checks. status=known: recorded, not repaired (printed as KNOWN-FINDING, exit 0). status=fixed: repaired by the named fix: commit; "
    "suppresses nothing. Never written at run time.", "findings": findings})
print("claimed:", [c["property_id"] for c in checks])
