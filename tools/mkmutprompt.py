#!/usr/bin/env python3
"""usage: tools/mkmutprompt.py C05 2 [first_k]  -> creates worktree /tmp/mut-C05, prints the prompt (property text only)"""
import json, pathlib, subprocess, sys
pid, n = sys.argv[1], sys.argv[2]
k0 = int(sys.argv[3]) if len(sys.argv) > 3 else 1
klist = ", ".join(str(k0 + i) for i in range(int(n)))
root = pathlib.Path(__file__).resolve().parent.parent
p = next(json.loads(l) for l in open(root / "properties.jsonl") if json.loads(l)["id"] == pid)
wt = f"/tmp/mut-{pid}"
if not pathlib.Path(wt).exists():
    subprocess.run(["git", "-C", "/repo", "worktree", "add", "--detach", wt, "HEAD"], check=True, capture_output=True)
out = "/tmp/mut-out"
pathlib.Path(f"{out}/{pid}").mkdir(parents=True, exist_ok=True)
anchors = "; ".join(f"{m['name']} ({m['where']})" for m in p["anchors"]["mechanism"]) + " — files: " + ", ".join(p["anchors"]["files"])
t = (root / "docs" / "mutation_prompt.txt").read_text()
for k, v in {"{WT}": wt, "{OUT}": out, "{PID}": pid, "{TITLE}": p["title"], "{STATEMENT}": p["statement"],
             "{QUANT}": p["quantifier"]["text"], "{ANCHORS}": anchors, "{N}": n, "{KLIST}": "{" + klist + "}"}.items():
    t = t.replace(k, v)
pathlib.Path(f"/tmp/mut-out/prompt_{pid}.txt").write_text(t)
print(f"/tmp/mut-out/prompt_{pid}.txt")
