#!/usr/bin/env python3
import sys, pathlib
pid, notes = sys.argv[1], sys.argv[2]
t = (pathlib.Path(__file__).resolve().parent.parent / "docs" / "agent_prompt.txt").read_text()
print(t.replace("{PID}", pid).replace("{pid}", pid.lower()).replace("{NOTES}", notes).replace("{{", "{").replace("}}", "}"))
