#!/bin/sh
# usage: tools/run_against.sh <seeded-id> <check> [tier]   e.g. tools/run_against.sh C05-2 C05
# applies seeded/<id>/patch.diff in a scratch worktree of /repo HEAD and runs ./check <check> against it
cd "$(dirname "$0")/.." || exit 2
id=$1; chk=$2; tier=${3:-quick}
wt=/tmp/against-$id-$chk
git -C /repo worktree remove --force $wt >/dev/null 2>&1
git -C /repo worktree add --detach $wt HEAD >/dev/null 2>&1 || exit 2
(cd $wt && git apply /verif/seeded/$id/patch.diff) || { echo "patch does not apply"; git -C /repo worktree remove --force $wt; exit 2; }
VERIF_REPO=$wt PYTHONPATH=$wt/src ./check $chk --tier $tier 2>&1 | grep -E "^VIOLATION|^  ->|^\[C" | cut -c1-260
git -C /repo worktree remove --force $wt >/dev/null 2>&1
