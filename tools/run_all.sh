#!/bin/sh
# usage: tools/run_all.sh [seed] [props...]  -> runs quick checks 4 at a time, prints one summary line each
cd "$(dirname "$0")/.." || exit 2
seed=${1:-0}; shift
props=${*:-$(python3 -c "import json;print(' '.join(c['property_id'] for c in json.load(open('MANIFEST.json'))['checks']))")}
printf "%s\n" $props | xargs -P 4 -I{} sh -c "VERIF_SEED=$seed ./check {} > /var/tmp/all_{}.log 2>&1; echo \"{} rc=\$? \$(grep -c '^KNOWN-FINDING' /var/tmp/all_{}.log) known; \$(grep -E '^VIOLATION|^  ->' /var/tmp/all_{}.log | cut -c1-200 | tr '\n' ' ')\""
