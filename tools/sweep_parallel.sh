#!/bin/sh
# usage: tools/sweep_parallel.sh [max_k]    - sweeps seeded/* (ids with k <= max_k, default all) in property-wise partitions,
# skipping the ids listed in /var/tmp/sweep_done.txt; logs in /var/tmp/sweepP_<i>.log; finish with
#   python3 tools/sweep_seeded.py --summary-only
cd "$(dirname "$0")/.." || exit 2
maxk=${1:-99}
python3 - "$maxk" <<'E'
import os, sys
maxk = int(sys.argv[1])
done = set(open('/var/tmp/sweep_done.txt').read().split()) if os.path.exists('/var/tmp/sweep_done.txt') else set()
ids = sorted((n for n in os.listdir('seeded') if os.path.isdir('seeded/' + n)), key=lambda n: (n.split('-')[0], int(n.split('-')[1])))
groups = [['C01'], ['C13', 'C17'], ['C05', 'C12'], ['C11', 'C16'], ['C06', 'C18', 'C20'], ['C02', 'C15'], ['C03', 'C09'],
          ['C04', 'C07', 'C08'], ['C10', 'C14', 'C19']]
for i, g in enumerate(groups):
    sel = [x for x in ids if x.split('-')[0] in g and int(x.split('-')[1]) <= maxk and x not in done]
    open(f'/var/tmp/sweepP_part{i}.txt', 'w').write(' '.join(sel))
    print(i, g, len(sel))
E
for i in 0 1 2 3 4 5 6 7 8; do
  ids=$(cat /var/tmp/sweepP_part$i.txt)
  [ -n "$ids" ] && (nohup python3 tools/sweep_seeded.py $ids > /var/tmp/sweepP_$i.log 2>&1 &)
done
echo started
