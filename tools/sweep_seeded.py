#!/usr/bin/env python3
"""Re-run the current checks against every kept seeded change and record the verdicts.

usage: tools/sweep_seeded.py [ids...]      (default: all of seeded/*)
For each seeded/<PID>-<k>: scratch worktree of /repo HEAD + patch.diff, `./check <PID>` (and the extra checks listed in
meta.json["also_check"]) with VERIF_REPO pointing at it; the outcome goes to meta.json["final_detection"] and to
seeded/SUMMARY.md.  A patch that no longer applies to HEAD (because a later fix: commit touched the same lines) is
recorded as such.
"""
from __future__ import annotations

import json
import os
import subprocess
import sys
from pathlib import Path

ROOT = Path(__file__).resolve().parent.parent


def sh(cmd, **kw):
    return subprocess.run(cmd, stdout=subprocess.PIPE, stderr=subprocess.STDOUT, text=True, **kw)


def row_of(sid, pid, meta, checks, final):
    det = [c for c in checks if final.get(c, {}).get("rc") == 1]
    real = [c for c in det if final[c]["with_failing_input"]]
    return (sid, pid, meta.get("summary", "")[:150].replace("|", "/"), meta.get("what_it_needs_to_manifest", "")[:150].replace("|", "/"),
            "not swept" if not final else "patch no longer applies" if not final.get("patch_applies") else
            ("neutralised: with the fix: commits now in /repo its demonstration passes (the property holds)"
             if final.get("demo_fails_on_patched_head") is False and not det else "") or
            (", ".join(f"{c} (failing input)" if c in real else f"{c} (correspondence only)" for c in det) or "MISSED"))


def main():
    summary_only = "--summary-only" in sys.argv
    args = [a for a in sys.argv[1:] if not a.startswith("--")]
    ids = args or sorted((p.name for p in (ROOT / "seeded").iterdir() if p.is_dir()),
                         key=lambda n: (n.split("-")[0], int(n.split("-")[1])))
    rows = []
    for sid in ids:
        d = ROOT / "seeded" / sid
        meta = json.loads((d / "meta.json").read_text())
        pid = meta.get("breaks_property") or sid.split("-")[0]
        checks = [pid] + [c for c in meta.get("also_check", []) if c != pid]
        if summary_only:
            final = meta.get("final_detection") or {}
            rows.append(row_of(sid, pid, meta, checks, final))
            continue
        wt = Path(f"/tmp/sweep-{sid}")
        sh(["git", "-C", "/repo", "worktree", "remove", "--force", str(wt)])
        sh(["git", "-C", "/repo", "worktree", "add", "--detach", str(wt), "HEAD"])
        final = {"repo_head": sh(["git", "-C", "/repo", "rev-parse", "--short", "HEAD"]).stdout.strip()}
        try:
            ra = sh(["git", "apply", str(d / "patch.diff")], cwd=wt)
            if ra.returncode:
                ra = sh(["git", "apply", "--3way", str(d / "patch.diff")], cwd=wt)
            final["patch_applies"] = ra.returncode == 0
            if ra.returncode == 0:
                # does the change still break the property on the current HEAD? (a later fix: commit may neutralise it)
                demo = next((d / n for n in ("demo.py", "test_demo.py") if (d / n).exists()), None)
                if demo is not None:
                    denv = dict(os.environ, PYTHONPATH=str(wt / "src"), PYTHONDONTWRITEBYTECODE="1")
                    denv.pop("SCHEMATHESIS_VERIF", None)
                    cmd = (["/venv/bin/python", "-m", "pytest", "-q", "-p", "no:cacheprovider", str(demo)]
                           if demo.name.startswith("test_") else ["/venv/bin/python", str(demo)])
                    try:
                        final["demo_fails_on_patched_head"] = sh(cmd, cwd=wt, env=denv, timeout=900).returncode != 0
                    except subprocess.TimeoutExpired:
                        final["demo_fails_on_patched_head"] = None
                for c in checks:
                    env = dict(os.environ, VERIF_REPO=str(wt), PYTHONPATH=str(wt / "src"))
                    r = sh(["./check", c], cwd=ROOT, env=env, timeout=3600)
                    lines = [ln for ln in r.stdout.splitlines() if ln.startswith(("VIOLATION", "  ->"))]
                    final[c] = {"rc": r.returncode, "with_failing_input": any(ln.startswith("VIOLATION") and
                                "no-failing-input-found" not in ln for ln in lines),
                                "signatures": [ln[5:].split(":", 4)[:4] and ln[5:200] for ln in lines if ln.startswith("  ->")][:6]}
        finally:
            sh(["git", "-C", "/repo", "worktree", "remove", "--force", str(wt)])
        meta["final_detection"] = final
        (d / "meta.json").write_text(json.dumps(meta, indent=1))
        rows.append(row_of(sid, pid, meta, checks, final))
        print(rows[-1][0], "->", rows[-1][-1], flush=True)
    out = ["# Seeded changes and which check reports them", "",
           "Each change was produced by an independent agent that saw only the property text and a scratch worktree, was "
           "confirmed here (demo passes on the clean tree, fails with the patch; the pinned baseline suite still passes), "
           "and is detected (or not) by the checks as listed. Regenerate with `tools/sweep_seeded.py`.", "",
           "| id | property | change | needs | reported by |", "|----|----------|--------|-------|-------------|"]
    out += [f"| {a} | {b} | {c} | {d_} | {e} |" for a, b, c, d_, e in rows]
    if not args:
        (ROOT / "seeded" / "SUMMARY.md").write_text("\n".join(out) + "\n")


if __name__ == "__main__":
    main()
