#!/bin/sh
# usage: tools/try_patch.sh <PID> <k> [check]   - runs ./check against /tmp/mut-out/<PID>/<k>/patch.diff in a scratch worktree (no confirmation)
cd "$(dirname "$0")/.." || exit 2
pid=$1; k=$2; chk=${3:-$pid}
wt=/tmp/try-$pid-$k-$chk
git -C /repo worktree remove --force $wt >/dev/null 2>&1
git -C /repo worktree add --detach $wt HEAD >/dev/null 2>&1 || exit 2
(cd $wt && (git apply /tmp/mut-out/$pid/$k/patch.diff 2>/dev/null || git apply --3way /tmp/mut-out/$pid/$k/patch.diff)) || { echo "patch does not apply"; git -C /repo worktree remove --force $wt; exit 2; }
VERIF_REPO=$wt PYTHONPATH=$wt/src ./check $chk 2>&1 | grep -E "^VIOLATION|^  ->|^\[C" | cut -c1-260
git -C /repo worktree remove --force $wt >/dev/null 2>&1
